"""C13 Spatial results are internally consistent and complete."""
from __future__ import annotations

import math
import random

import snowingutil as su  # imports shim first
import numpy as np

import core
from core import Failure, close

ID = "C13"
LEAN_MODULE = "SnowProofs.Props.C13"
THEOREMS = [
    dict(name="Snow.C13.complete_or_raise_0D", clause="0D: one run either raises (no arrays) or returns complete statistics and arrays", strength="full"),
    dict(name="Snow.C13.complete_or_raise_1D", clause="1D: the same; exceptions are the two ValueErrors and the buffer IndexError", strength="full"),
    dict(name="Snow.C13.complete_or_raise_fresh_0D", clause="fresh object, 0D, PRE-REPAIR run() (SnowObj.run): complete results or every accessor raises AssertionError", strength="full"),
    dict(name="Snow.C13.complete_or_raise_fresh_1D", clause="fresh object, 1D, PRE-REPAIR run() (SnowObj.run): complete results or every accessor raises AssertionError", strength="full"),
    dict(name="Snow.C13.tfr_eq_0D", clause="0D: t_fr = t_nuc + t_sol", strength="full"),
    dict(name="Snow.C13.tfr_eq_1D", clause="1D: t_fr = t_nuc + t_sol", strength="full"),
    dict(name="Snow.C13.tsol_first_90_0D", clause="0D: t_sol is dt*i for the FIRST solidification step with sigma >= 0.9", strength="full"),
    dict(name="Snow.C13.tsol_first_90_1D", clause="1D: the same with the integrated frozen-water fraction", strength="full"),
    dict(name="Snow.C13.sigma_of_saved_field_1D", clause="1D: sigma of a step is computed from the field saved for that step", strength="full"),
    dict(name="Snow.C13.result_times_0D", clause="0D: t_nuc, t_sol, t_fr are dt times the two loop indices", strength="full"),
    dict(name="Snow.C13.result_times_1D", clause="1D: t_nuc, t_sol, t_fr are dt times the two loop indices", strength="full"),
    dict(name="Snow.C13.times_within_0D", clause="0D: all times within [0, (n-1) dt]", strength="full"),
    dict(name="Snow.C13.times_within_1D", clause="1D: all times within [0, (n-1) dt]", strength="full"),
    dict(name="Snow.C13.cool_inv", clause="1D cooling stage: every in-loop buffer write in range; rows aligned with the programme", strength="full"),
    dict(name="Snow.C13.solid_inv", clause="1D solidification stage: every in-loop buffer write in range; rows aligned", strength="full"),
    dict(name="Snow.C13.buffer_in_range", clause="1D: IndexError iff the extra post-nucleation row meets a full cooling buffer (explicit exception branch)", strength="full"),
    dict(name="Snow.C13.history_aligned_1D", clause="1D: i_save_end+1+(i_save-1) rows, time = dt*step, shelfTemp = profile[step], rows in step order (that the four Python arrays have EQUAL length is by construction of the model - one array of rows - and is checked on every real run, not a theorem)", strength="full"),
    dict(name="Snow.C13.time_nondecreasing_1D", clause="1D: time axis non-decreasing", strength="full"),
    dict(name="Snow.C13.history_aligned_0D", clause="0D: the four histories have one entry per programme step; shelfTemp is the programme", strength="full"),
    dict(name="Snow.C13.reused_object_partial", clause="REUSED object (state machine): a run failing in solidification after a completed one leaves new statistics with t_sol=None beside the old arrays", strength="refutation-of-old-code"),
    dict(name="Snow.C13.reused_object_counterexample", clause="concrete witness of the above in the 0D model (K6)", strength="refutation-of-old-code"),
    dict(name="Snow.C13.reused_object_fixed", clause="with the proposed repair of run() a raising run leaves nothing readable, whatever the history", strength="full"),
    dict(name="Snow.C13.reused_object_fixed_ok", clause="with the repair a completed run shows exactly its own results", strength="full"),
    dict(name="Snow.C13.nonvacuous", clause="a concrete completing run and a concrete run failing in solidification exist in the model", strength="nonvacuity"),
    dict(name="Snow.S2D.solidLoop_eq", clause="2D: S2D.solidLoop is the generic iterIdx/firstHit fold", strength="full"),
    dict(name="Snow.S2D.run_eq", clause="2D: S2D.run decomposed on the generic skeletons (which state every result field comes from, when it raises)", strength="full"),
    dict(name="Snow.C13.complete_or_raise_2D", clause="2D: complete result or ValueError / IndexError", strength="full"),
    dict(name="Snow.C13.tfr_eq_2D", clause="2D: t_fr = t_nuc + t_sol", strength="full"),
    dict(name="Snow.C13.tsol_first_90_2D", clause="2D: t_sol = dt * (first solidification step with integrated frozen fraction >= 0.9), computed from that step's field", strength="full"),
    dict(name="Snow.C13.times_within_2D", clause="2D: all times within [0, (n-1) dt]", strength="full"),
    dict(name="Snow.C13.cool_inv_2D", clause="2D cooling stage: in-loop row index < 10 000; rows aligned with the programme", strength="full"),
    dict(name="Snow.C13.solid_inv_2D", clause="2D solidification stage: in-loop row index < 10 000; rows aligned", strength="full"),
    dict(name="Snow.C13.buffer_in_range_2D", clause="2D: IndexError iff the extra post-nucleation row meets a full cooling buffer", strength="full"),
    dict(name="Snow.C13.history_aligned_2D", clause="2D: equal lengths i_save_end+1+(i_save-1), time = dt*step, shelfTemp = profile[step], steps non-decreasing", strength="full"),
    dict(name="Snow.C13.time_nondecreasing_2D", clause="2D: time axis non-decreasing", strength="full"),
    dict(name="Snow.C13.study_partial_counterexample", clause="sequential Nrep>1 study (K6-only code): a later repetition that raises leaves the histories of the last completed repetition readable (K7)", strength="refutation-of-old-code"),
    dict(name="Snow.C13.study_fixed_raises", clause="sequential study, repaired run(): after a study that raised every accessor raises", strength="full"),
    dict(name="Snow.C13.study_fixed_ok", clause="sequential study, repaired run(): a completed study shows its whole table and the histories of its last repetition", strength="full"),
    dict(name="Snow.C13.runFixed_eq_runK6_observable", clause="the K7 repair does not change what single runs show", strength="full"),
    dict(name="Snow.C13.time_is_grid_0D", clause="0D: time[j] = dt*j (hours), dt = 0.1 s", strength="full"),
    dict(name="Snow.C13.time_nondecreasing_0D", clause="0D: time axis non-decreasing", strength="full"),
    dict(name="Snow.C13.hlen_run1D", clause="1D: the profile the run iterates over has exactly Nt_exp samples (discharges the side hypothesis of the buffer theorems for _run_1D itself)", strength="full"),
    dict(name="Snow.C13.buffer_in_range_run1D", clause="1D: buffer_in_range for run1D p without side hypothesis", strength="full"),
    dict(name="Snow.C13.history_aligned_run1D", clause="1D: history alignment for run1D p without side hypothesis", strength="full"),
    dict(name="Snow.saved_rows_from_states", clause="generic: every saved row was written from the loop state of its step", strength="full"),
    dict(name="Snow.C13.published_solid_rows_1D", clause="1D: every published solidification row carries the ice fractions and the field of the loop state of its step", strength="full"),
    dict(name="Snow.C13.tsol_first_90_published_1D", clause="1D: on the PUBLISHED iceMassFraction rows: integrated frozen fraction < 0.9 before the t_sol step and >= 0.9 at it", strength="full"),
    dict(name="Snow.C13.complete_or_raise_fresh_fixed_0D", clause="0D, run() as in /repo (SnowObj.runFixed), any earlier history of the object: complete results or every accessor raises", strength="full"),
    dict(name="Snow.C13.complete_or_raise_fresh_fixed_1D", clause="1D, run() as in /repo (SnowObj.runFixed), any earlier history of the object: complete results or every accessor raises", strength="full"),
    dict(name="Snow.C13.published_solid_rows_2D", clause="2D: every published solidification row holds iceFrac of its step's field, and that step's 90 % test used sigmaOf of exactly these entries", strength="full"),
    dict(name="Snow.C13.hlen_run2D", clause="2D: len(tempProfile(dt)) <= Nt_exp - the form the buffer/alignment theorems need (equality: len_run2D)", strength="full"),
    dict(name="Snow.C13.history_aligned_run2D", clause="2D: history alignment for the run _run_2D makes (T0C := oc.start, profile := tempProfile(dt), Nt_exp := ceil(t_tot/dt)+1), no side hypothesis", strength="full"),
    dict(name="Snow.C13.time_nondecreasing_run2D", clause="2D: non-decreasing time axis for the run _run_2D makes (T0C := oc.start, tempProfile(dt), Nt_exp), given 0 <= dt (discharged in time_nondecreasing_run2D_code)", strength="full"),
    dict(name="Snow.C13.complete_or_raise_obj_2D", clause="2D, run() as in /repo, any earlier history of the object: results and histories of THIS run, or the run raised and every accessor raises", strength="full"),
    dict(name="Snow.C13.study_async_ok", clause="asynchronous Nrep>1 study that completed: results = table of all repetitions, history accessors return None (complete result of such a study)", strength="full"),
    dict(name="Snow.C13.study_async_rows", clause="... with exactly Nrep rows", strength="full"),
    dict(name="Snow.C13.study_async_raises", clause="asynchronous study in which a repetition raised: run() raises and every accessor raises (no table with missing seeds)", strength="full"),
    dict(name="Snow.C13.asyncExc_isSome_iff", clause="an asynchronous study raises iff some repetition raised", strength="full"),
    dict(name="Snow.C13.len_run2D", clause="2D: tempProfile(dt) has exactly Nt_exp samples", strength="full"),
    dict(name="Snow.C13.dt_grid2D_nonneg", clause="2D: the code's dt is non-negative (alpha_max >= 0)", strength="full"),
    dict(name="Snow.C13.time_nondecreasing_run2D_code", clause="2D: non-decreasing time axis for the run _run_2D makes (T0C := oc.start), only hypothesis alpha_max >= 0", strength="full"),
    dict(name="Snow.C13.times_within_2D_code", clause="2D: all times within the process, 0 <= dt discharged", strength="full"),
    dict(name="Snow.C13.times_within_1D_code", clause="1D: all times within the process, 0 <= dt discharged (alpha_max >= 0)", strength="full"),
    dict(name="Snow.C13.time_nondecreasing_run1D", clause="1D: non-decreasing time axis for run1D p itself, only hypothesis alpha_max >= 0", strength="full"),
]
TRUSTED = [
    "Lean 4.33 kernel; axioms per theorem listed under coverage.axioms",
    "theorems are over the reals: IEEE rounding is not modelled (e.g. t_fr = t_nuc + t_sol holds to rounding only)",
    "hand-written models SnowModel/Snowing0D.lean, Snowing1D.lean, SnowingRuns.lean tied to snowing.py by this "
    "differential check (single runs: all four arrays; object histories: exception class, results, array lengths)",
    "OperatingConditions.tempProfile is the programme (C05)",
    "2D model SnowModel/Snowing2D.lean (work package G), flags false = the repaired code in /repo; tied here by real 2D runs",
]
ASSUMPTIONS = [
    "satisfiability of the hypothesis 'the run completed' (1D: (run1D p).exc = none; 2D: S2D.run ... = .ok r) is NOT witnessed in Lean (the models need exp/pow/sqrt, there is no computable real instance and no Transc instance of Rat); it rests on the differential runs of this check, in which the compiled model and the real code both complete on the same inputs. The 0D non-vacuity theorems are concrete completed runs over the reals.",
    "profile of Nt_exp samples (true for tempProfile, C05.profile_length); dt >= 0; Nrep = 1",
    "continuous comparisons rtol 1e-9; array lengths, step indices and exception classes exactly",
    "the object model accepts both variants of run() (current: SnowObj.run; repaired: SnowObj.runFixed) and the "
    "predicates decide which behaviour violates the property",
]
RULE = ("the 0D/1D/2D programmes of C08 (shared real runs), 1D processes with more than 10 000 steps (strides > 1), "
        "programmes too short for nucleation / for solidification, and object histories "
        "(complete run then failing run and vice versa) in 0D and 1D")
EXPLANATION = ("Lean theorems about the save-buffer invariants, the solidification fold and the object state machine + "
               "differential check against Snowing.run() and its accessors; the clauses re-evaluated on real outputs")
PARALLEL = True

# --- regeneration tie (harness/gentie.py): the formulas of the hand model SnowModel/Snowing0D.lean, Snowing1D.lean are re-derived
# from /repo's source on every run and proved equal to the generated text (lean/SnowProofs/Props/GenTie/)
import gentie  # noqa: E402
THEOREMS = THEOREMS + gentie.theorems("0D") + gentie.theorems("1D")
extra_lean_targets = list(globals().get("extra_lean_targets", [])) + [gentie.module("0D"), gentie.module("1D")]
TRUSTED = TRUSTED + ["harness/translate.py formula extraction (single assignments of the run loop -> Lean definitions; "
                     "anything outside its tiny language is a TranslatorError)"]


def regenerate():
    gentie.regenerate("0D")
    gentie.regenerate("1D")

LEVEL_TEXT = ('Lean 4 theorems about executable models of _run_0D, _run_1D and of the object fields across successive run() calls (exact real arithmetic), tied to /repo by a differential check (all four arrays of single runs; exception class, results and array lengths of object histories). Proved in full for 0D and 1D: complete result or exception (one run; fresh object: every accessor raises AssertionError after a failed run); t_fr = t_nuc + t_sol; t_sol = dt * (first solidification step with frozen fraction >= 0.9), the fraction being computed from the field saved for that step; all times within the process; number of history rows (1D: i_save_end + 1 + (i_save - 1); that the four Python arrays have equal length is by construction of the 1D model, which keeps one array of rows, and is checked on every real run; 0D: four arrays of n entries, proved), time = dt * step, shelfTemp = programme[step], rows in step order hence time non-decreasing; every in-loop buffer write in range, IndexError exactly when the extra post-nucleation row meets a full cooling buffer (explicit exception branch, reproduced on the real code). Refuted for a REUSED object: a run failing in the solidification stage after a completed one leaves new statistics with t_sol = None beside the old arrays (state-machine theorem + concrete model witness, replayed: K6); with the proposed repair of run() (fixes/K6.diff) the clause is proved for every object history. The single-run clauses are proved for the 2D model as well (S2D.run returns a complete Result or an exception class; its loops are identified with the generic folds); real 2D runs are compared with it (exception class, results row, array lengths, time axis, shelf, thinned fields). The object state machine (run() as repaired: outputs cleared at the start and on an exception) is stated for 0D, 1D and 2D outputs (complete_or_raise_fresh_fixed_0D/1D, complete_or_raise_obj_2D), for sequential studies (study_fixed_*) and for asynchronous studies (study_async_*: a completed asynchronous study shows the table and no histories; one that raised shows nothing). The per-step formulas of the 0D and 1D hand models are additionally tied by REGENERATION: harness/translate.py extracts them from /repo on every run and SnowProofs/Props/GenTie proves the generated text equal to the hand model (a changed formula breaks that proof).')


ARRS = ("time", "shelfTemp", "temp", "iceMassFraction")


# ---------------------------------------------------------------------------
def run_impl(case):
    return su.run_real_cached(case)


def _dt(case, const):
    return 0.1 if case["dim"] == "0D" else su.dt_1d(const) if case["dim"] == "1D" else su.dt_2d(const)


def run_model(drv, case):
    if case["dim"] == "2D":
        prog = su.programs(case)[0]
        m = su.model_2d(drv, case, prog, prog["Frand"] if prog.get("Frand") is not None else su.recorded_frand(0),
                        out_stride=case.get("row_stride", 499))
        m["is2D"] = True
        return m
    mi = su.model_init(case)
    if mi is not None:
        return mi
    rec = su.record_inputs(case)
    if rec.get("raise"):
        # the rule says this case constructs; the model cannot echo the implementation
        return {"raise": None, "stage": "init", "no_constants": rec["raise"]}
    progs = su.programs(case)
    out = {"single": None, "seq": None}
    if case.get("Nrep"):
        # a multi-repetition study: repetition i is the single run with F_rand = the draw of seed i
        tables = []
        for pr in progs:
            rows = []
            for i in range(int(case["Nrep"])):
                r = drv.call(su.model_request(case, rec, prog=pr, Frand=su.recorded_frand(i), old=False,
                                              row_stride=10 ** 9))
                rows.append(su.decode_model(r))
                if rows[-1]["raise"]:
                    break  # the study stops at the first repetition that raises
            tables.append(rows)
        out["tables"] = tables
        return out
    frs = [pr["Frand"] if pr.get("Frand") is not None else su.recorded_frand(0) for pr in progs]
    if len(progs) == 1:
        r = drv.call(su.model_request(case, rec, prog=progs[0], Frand=frs[0], old=False, traces=False,
                                      row_stride=case.get("row_stride", 37)))
        out["single"] = su.decode_model(r)
    # constants of the configuration in force at each run (`S.configPath = …` between runs re-derives them)
    recs = [rec if not any(pr.get("reconfig") for pr in progs[1:k + 1]) else su.record_inputs(su.case_of_run(case, k))
            for k in range(len(progs))]
    reqs = [su.model_request(case, rk, prog=pr, Frand=fr, old=False, row_stride=10 ** 9)
            for rk, pr, fr in zip(recs, progs, frs)]
    # (the pre-repair variant of run(), SnowObj.run, is kept in Lean for the counter-example theorem only)
    for tag, fixed in (("seq_fixed", True),):
        r = drv.call({"op": "snowingRuns", "dim": case["dim"], "fixed": fixed, "runs": reqs})
        if "error" in r:
            raise RuntimeError(r["error"])
        out[tag] = [_dec_run(x) for x in r["runs"]]
    return out


def _dec_run(x):
    res = x.get("results")
    if isinstance(res, dict) and "raise" not in res:
        res = {k: (None if v is None else core.b2f(v)) for k, v in res.items()}
    return {"raise": x.get("raise"), "results": res, "nrows": x.get("nrows")}


def _impl_seq(impl):
    out = []
    for run in impl["runs"]:
        snap = run.get("snap") or {}
        res = snap.get("results")
        nrows = {}
        for name in ARRS:
            t = snap.get(name)
            nrows[name] = t if (isinstance(t, dict) or t is None) else len(t)
        out.append({"raise": run.get("raise"), "results": res, "nrows": nrows})
    return out


def _cmp_seq(a, b):
    dis = []
    for k, (x, y) in enumerate(zip(a, b)):
        if (x["raise"] or None) != (y["raise"] or None):
            dis.append(f"run {k}: exception impl {x['raise']} vs model {y['raise']}")
            continue
        rx, ry = x["results"], y["results"]
        if isinstance(rx, dict) and "raise" in rx or isinstance(ry, dict) and "raise" in ry or rx is None or ry is None:
            if rx != ry:
                dis.append(f"run {k}: results impl {rx} vs model {ry}")
        else:
            for key in ry:
                if not close(rx.get(key), ry[key]):
                    dis.append(f"run {k}: results[{key}] impl {rx.get(key)!r} vs model {ry[key]!r}")
        for name, v in x["nrows"].items():
            if v != y["nrows"]:
                dis.append(f"run {k}: accessor {name} impl {v} vs model {y['nrows']}")
    return dis


def _cmp_table(case, impl, model):
    """results table of an Nrep > 1 study, column by column against the single-run model of every seed"""
    dis = []
    for k, (run, rows) in enumerate(zip(impl["runs"], model["tables"])):
        exp_raise = next((m["raise"] for m in rows if m["raise"]), None)
        if (run["raise"] or None) != exp_raise:
            dis.append(f"run {k}: exception impl {run['raise']} vs model {exp_raise}")
            continue
        tab = run["snap"].get("results_table")
        if run["raise"]:
            # run() raised: the table of the study must not be readable (the model has no result at all)
            if not (isinstance(tab, dict) and "raise" in tab):
                dis.append(f"run {k}: results table readable after the study raised ({len(tab)} rows)")
            # histories: /repo carries the repair of K7 (946750f): run() clears everything again when a
            # repetition raises (model: SnowObj.runStudyFixed); the K6-only variant (SnowObj.runStudyK6,
            # histories of the last completed repetition stay readable) is kept only as a counter-example theorem.
            st = [run["snap"][nm] for nm in ARRS]
            n_read = [len(v) for v in st if isinstance(v, list)]
            if len(n_read) != 0:
                dis.append(f"run {k}: after the failed study history accessors are still readable: "
                           f"{[len(v) if isinstance(v, list) else v for v in st]}")
            continue
        if not isinstance(tab, list) or len(tab) != len(rows):
            dis.append(f"run {k}: results table impl {tab if not isinstance(tab, list) else len(tab)} rows vs model {len(rows)}")
            continue
        for i, (a, m) in enumerate(zip(tab, rows)):
            for key, v in m["stats"].items():
                if not close(a.get(key), v):
                    dis.append(f"run {k}, repetition {i}: column {key} impl {a.get(key)!r} vs model {v!r}")
    return dis[:6]


def compare(case, impl, model):
    dis = []
    if model is None:
        return dis
    if impl.get("raise") or model.get("stage") == "init":
        return [] if (impl.get("raise") or None) == (model.get("raise") or None) else \
            [f"init exception: impl {impl.get('raise')} vs rule {model.get('raise')}"]
    if model.get("is2D"):
        run = impl["runs"][0]
        dis = su.compare_2d(case, run, model, arrays=True)
        if run["raise"] and not dis:
            # a failed run on a fresh object: every accessor must raise (the model returns no result at all)
            for nm in ("results",) + ARRS:
                v = run["snap"][nm]
                if not (isinstance(v, dict) and "raise" in v):
                    dis.append(f"2D accessor {nm} readable after a run that raised")
        return dis
    if case.get("Nrep"):
        return _cmp_table(case, impl, model)
    a = _impl_seq(impl)
    # /repo carries the repair of K6 (8f62f48): run() clears the outputs of an earlier run.
    # The model of that run() is SnowObj.runFixed ("seq_fixed"); the pre-repair variant
    # ("seq") is kept only for the counter-example theorem.
    d_fix = _cmp_seq(a, model["seq_fixed"])
    if d_fix:
        dis += ["object history (vs run() with cleared outputs): " + x for x in d_fix[:4]]
    m = model.get("single")
    if m is None or dis:
        return dis
    run = impl["runs"][0]
    if run["raise"] or m["raise"]:
        return dis
    snap = run["snap"]
    # every array, row by row (temp / ice on the thinned set of rows the model sent back)
    for k_impl, k_m in (("time", "time"), ("shelfTemp", "shelf")):
        x, y = snap[k_impl], m[k_m]
        if len(x) != len(y):
            dis.append(f"len({k_impl}): impl {len(x)} vs model {len(y)}")
            continue
        bad = [j for j in range(len(x)) if not close(x[j], y[j])]
        if bad:
            dis.append(f"{k_impl}[{bad[0]}]: impl {x[bad[0]]!r} vs model {y[bad[0]]!r}")
    for k_impl, k_m in (("temp", "temp"), ("iceMassFraction", "ice")):
        x, y = snap[k_impl], m[k_m]
        if case["dim"] == "0D":
            if len(x) != len(y):
                dis.append(f"len({k_impl}): impl {len(x)} vs model {len(y)}")
                continue
            bad = [j for j in range(len(x)) if not close(x[j], y[j])]
            if bad:
                dis.append(f"{k_impl}[{bad[0]}]: impl {x[bad[0]]!r} vs model {y[bad[0]]!r}")
            continue
        if len(x) != m["nrows"]:
            dis.append(f"len({k_impl}): impl {len(x)} vs model {m['nrows']}")
            continue
        for row, j in zip(y, m["rows"]):
            xa, ya = np.asarray(x[j]), np.asarray(row)
            if xa.shape != ya.shape:
                dis.append(f"{k_impl}[{j}] shape: impl {xa.shape} vs model {ya.shape}")
                break
            tol = 1e-9 * np.maximum(1.0, np.maximum(np.abs(xa), np.abs(ya)))
            if not np.all((np.abs(xa - ya) <= tol) | (np.isnan(xa) & np.isnan(ya))):
                dis.append(f"{k_impl}[{j}]: impl vs model differ by {float(np.nanmax(np.abs(xa - ya)))}")
                break
    return dis


# ---------------------------------------------------------------------------
# the clauses on the implementation's output
# ---------------------------------------------------------------------------
def _partial(snap, async_study=False):
    """what the accessors expose: 'none' (all raise), 'complete', or a description of partial data.
    An ASYNCHRONOUS multi-repetition study runs its repetitions in worker processes: the object gets the table of
    rows but no histories (all four accessors return None) - that is the complete result of such a study."""
    res = snap["results"]
    arrs = [snap[k] for k in ARRS]
    if async_study and all(a is None for a in arrs):
        res_ok = isinstance(res, dict) and "raise" not in res and res and all(v is not None for v in res.values())
        return "complete" if res_ok else "partial"
    res_raise = isinstance(res, dict) and "raise" in res
    arr_raise = [isinstance(a, dict) for a in arrs]
    if res_raise and all(arr_raise):
        return "none"
    if not res_raise and not any(arr_raise) and res and all(v is not None for v in res.values()) \
            and all(a is not None for a in arrs):
        return "complete"
    return "partial"


def _check_complete_run(case, prog, impl, run, site, out):
    """clauses about one completed run"""
    c = impl["const"]
    dim = case["dim"]
    snap = run["snap"]
    res = snap["results"]
    dt = _dt(case, c)
    n = su.n_steps(prog["t_tot"], dt)
    t_nuc, t_sol, t_fr = res["t_nuc"], res["t_sol"], res["t_fr"]
    # whatever a completed run returns must be finite numbers
    bad = [k for k, v in res.items() if v is None or not math.isfinite(v)]
    for nm in ARRS:
        a = np.asarray(snap[nm], dtype=float)
        if a.size and not np.all(np.isfinite(a)):
            bad.append(nm)
    if bad:
        out.append(Failure(clause="complete_or_raise", key=f"non_finite_result|{site}|{'+'.join(bad)}",
                           detail=f"run() returned but these outputs are not finite: {bad} (results {res})"))
        return
    if not close(t_fr, t_nuc + t_sol):
        out.append(Failure(clause="tfr_eq", key=f"tfr_eq|{site}|", detail=f"t_fr {t_fr} != t_nuc {t_nuc} + t_sol {t_sol}"))
    lim = (n - 1) * dt / 60.0
    if not (0 <= t_nuc <= t_fr * (1 + 1e-12) and t_sol >= 0 and t_fr <= lim * (1 + 1e-9)):
        out.append(Failure(clause="times_within", key=f"times_within|{site}|",
                           detail=f"t_nuc {t_nuc}, t_sol {t_sol}, t_fr {t_fr}, process {lim} min"))
    time, shelf, temp, ice = (snap[k] for k in ARRS)
    L = {k: len(snap[k]) for k in ARRS}
    if len(set(L.values())) != 1:
        out.append(Failure(clause="history_aligned", key=f"history_lengths|{site}|", detail=f"lengths {L}"))
        return
    for j in range(len(time) - 1):
        if time[j + 1] < time[j]:
            out.append(Failure(clause="history_aligned", key=f"time_decreases|{site}|",
                               detail=f"time[{j}]={time[j]} > time[{j + 1}]={time[j + 1]}"))
            break
    i_end = int(round(t_nuc * 60 / dt))
    i_sol = int(round(t_sol * 60 / dt))
    prof = su.programmed_profile(prog, dt)
    if dim == "0D":
        steps = list(range(n))
        sc = ss = 1
        first_solid_row = i_end
    else:
        sc = math.ceil(n / 10000)
        ss = math.ceil((n - i_end) / 10000)
        n_cool = i_end // sc + 1
        n_sol = math.ceil((n - i_end) / ss) - 1
        steps = [j * sc for j in range(n_cool)] + [i_end] + [i_end + j * ss for j in range(n_sol)]
        first_solid_row = n_cool + 1
    if len(steps) != len(time):
        out.append(Failure(clause="history_aligned", key=f"history_row_count|{site}|",
                           detail=f"{len(time)} rows, stride arithmetic gives {len(steps)} (n={n}, i_end={i_end})"))
        return
    if len(prof) != n:
        out.append(Failure(clause="history_aligned", key=f"programme_length|{site}|",
                           detail=f"tempProfile(dt) has {len(prof)} samples but the process has n = {n} steps: the time "
                                  f"grid and t_sol clauses cannot be evaluated"))
        return
    for j, st in enumerate(steps):
        if not close(time[j] * 3600.0, dt * st, rtol=1e-9) and abs(time[j] * 3600 - dt * st) > 1e-9:
            out.append(Failure(clause="history_aligned", key=f"time_is_dt_step|{site}|",
                               detail=f"time[{j}]={time[j] * 3600} s but step {st} * dt = {dt * st}"))
            break
    for j, st in enumerate(steps):
        if not close(shelf[j], prof[st], rtol=1e-9) and abs(shelf[j] - prof[st]) > 1e-9:
            out.append(Failure(clause="history_aligned", key=f"shelf_is_programme|{site}|",
                               detail=f"shelfTemp[{j}]={shelf[j]} but programme[{st}]={prof[st]}"))
            break
    # t_sol: first solidification step whose frozen fraction reaches 90 %
    if dim == "0D":
        sig = np.asarray(ice[first_solid_row:]) * c["mass"] / (c["mass"] - c["mass_solute"])
    else:
        a = np.asarray(ice[first_solid_row:])
        if dim == "1D":
            w = su.simpson_weights(30, c["height"] / 29)
            sig = (a * c["mass"]) @ w / c["height"] / (c["mass"] - c["mass_solute"]) if len(a) else np.array([])
        else:
            # integrated frozen-water fraction with the cylindrical volume element 2 pi r dr dz
            wz, wr = su.cyl_weights(c)
            vol = np.einsum("tzr,z,r->t", a.reshape(len(a), 30, 15), wz, wr) if len(a) else np.array([])
            sig = vol / (np.pi * (c["diameter"] / 2) ** 2 * c["height"]) * c["mass"] / (c["mass"] - c["mass_solute"])
    if sig is not None and len(sig):
        rows_steps = np.arange(len(sig)) * ss
        before = sig[rows_steps < i_sol]
        if len(before) and np.max(before) >= 0.9 * (1 + 1e-9):
            j0 = int(np.argmax(before >= 0.9 * (1 + 1e-9)))
            out.append(Failure(clause="tsol_first_90", key=f"tsol_first_90|{site}|late",
                               detail=f"frozen fraction {before[j0]} >= 0.9 already at solidification step "
                                      f"{int(rows_steps[j0])} < t_sol step {i_sol}"))
        at = np.nonzero(rows_steps == i_sol)[0]
        if len(at) and sig[at[0]] < 0.9 * (1 - 1e-9):
            out.append(Failure(clause="tsol_first_90", key=f"tsol_first_90|{site}|early",
                               detail=f"frozen fraction at the t_sol step {i_sol} is {sig[at[0]]} < 0.9"))


def _check_table(case, prog, impl, run, site, out):
    """Nrep > 1: every row of the results table, column by column"""
    tab = run["snap"].get("results_table")
    if tab is None:
        return
    if not isinstance(tab, list) or len(tab) != int(case.get("Nrep") or 1):
        out.append(Failure(clause="complete_or_raise", key=f"results_table|{site}|rows",
                           detail=f"results table of an Nrep={case.get('Nrep')} study: {tab if not isinstance(tab, list) else len(tab)}"))
        return
    dt = _dt(case, impl["const"])
    lim = (su.n_steps(prog["t_tot"], dt) - 1) * dt / 60.0
    for i, row in enumerate(tab):
        if any(v is None for v in row.values()):
            out.append(Failure(clause="complete_or_raise", key=f"results_table|{site}|incomplete-row",
                               detail=f"repetition {i}: {row}"))
            continue
        if not close(row["t_fr"], row["t_nuc"] + row["t_sol"]):
            out.append(Failure(clause="tfr_eq", key=f"tfr_eq|{site}|Nrep>1",
                               detail=f"repetition {i}: t_fr {row['t_fr']} != t_nuc {row['t_nuc']} + t_sol {row['t_sol']}"))
            break
        if not (0 <= row["t_nuc"] <= row["t_fr"] * (1 + 1e-12) <= lim * (1 + 1e-9) and row["t_sol"] >= 0):
            out.append(Failure(clause="times_within", key=f"times_within|{site}|Nrep>1", detail=f"repetition {i}: {row}"))
            break
    # the arrays left on the object are those of the LAST repetition: its row must fit them
    last = dict(run)
    last["snap"] = dict(run["snap"])
    last["snap"]["results"] = tab[-1]
    if all(v is not None for v in tab[-1].values()) and isinstance(run["snap"]["time"], list):
        sub = []
        _check_complete_run(case, prog, impl, last, site, sub)
        for f in sub:
            f["key"] += "|last-repetition"
            f["detail"] = "last repetition of the study vs the arrays on the object: " + f["detail"]
        out.extend(sub)


def predicates(case, impl):
    out = su.init_failures(case, impl, Failure)
    if impl.get("raise") or not impl.get("runs"):
        return out
    site = f"_run_{case['dim']}"
    progs = su.programs(case)
    had_complete = False
    for k, (prog, run) in enumerate(zip(progs, impl["runs"])):
        if "snap" not in run:
            continue
        if run.get("changed_later"):
            out.append(Failure(clause="history_aligned",
                               key=f"history_stable|{site}|{'+'.join(run['changed_later'])}",
                               detail=f"the histories {run['changed_later']} handed out after run {k} changed when a LATER "
                                      f"run was made in the same process (same object re-run, or a second object on the "
                                      f"same grid): a finished result must keep its own data"))
        state = _partial(run["snap"], async_study=bool(case.get("Nrep")) and case.get("how") == "async")
        cls = "fresh-object" if not had_complete else "reused-object"
        if run["raise"]:
            if run["raise"] not in ("ValueError", "IndexError"):
                out.append(Failure(clause="complete_or_raise", key=f"unexpected_exception|{site}|{run['raise']}",
                                   detail=f"run {k} raises {run['raise']}"))
            res = run["snap"]["results"]
            partial = isinstance(res, dict) and "raise" not in res and any(v is None for v in res.values())
            # run() clears the outputs of an earlier run first, so after a run that raised EVERY accessor
            # must raise: anything readable is data of an incomplete run
            readable = [nm for nm in ("results",) + ARRS
                        if not (isinstance(run["snap"][nm], dict) and "raise" in run["snap"][nm])]
            if readable and not partial and case.get("Nrep") and "results" not in readable:
                # a sequential multi-repetition study that raised in a LATER repetition: `results` refuses, but the
                # histories of the last completed repetition stay readable
                out.append(Failure(clause="complete_or_raise",
                                   key=f"complete_or_raise|{cls}|histories-of-a-completed-repetition-after-failed-study|{site}",
                                   detail=f"run {k} (Nrep={case['Nrep']}, sequential) raised {run['raise']} in a later "
                                          f"repetition; `results` raises but {readable} return the histories of the "
                                          f"last repetition that completed"))
            elif readable and not partial:
                out.append(Failure(clause="complete_or_raise",
                                   key=f"complete_or_raise|{cls}|readable-after-failed-run|{site}",
                                   detail=f"run {k} raised {run['raise']} but these accessors still return data: "
                                          f"{readable} (all others raise AssertionError)"))
            if state != "none" and partial:
                what = "partial-results"
                out.append(Failure(clause="complete_or_raise", key=f"complete_or_raise|{cls}|{what}|{site}",
                                   detail=f"run {k} raised {run['raise']} but the accessors still return data: "
                                          f"results={res}, len(time)="
                                          f"{len(run['snap']['time']) if isinstance(run['snap']['time'], list) else run['snap']['time']}"))
        else:
            if state != "complete":
                out.append(Failure(clause="complete_or_raise", key=f"complete_or_raise|{cls}|incomplete|{site}",
                                   detail=f"run {k} returned but results/arrays are incomplete: {run['snap']['results']}"))
            elif case.get("Nrep"):
                # `.results` is the table of all repetitions, the arrays are those of the last one
                _check_table(case, prog, impl, run, site, out)
            else:
                impl_k = dict(impl, const=run["const"]) if run.get("const") else impl
                _check_complete_run(case, prog, impl_k, run, site, out)
            had_complete = True
    return out


def classify(case, impl):
    tags = [f"dim={case['dim']}", f"kind={case.get('kind', 'c08')}"]
    if impl.get("raise"):
        tags.append("init-raise")
    else:
        tags.append("outcomes=" + ",".join((r.get("raise") or "ok") for r in impl["runs"]))
    return tags


def nontrivial(case, impl):
    return not impl.get("raise") and any(not r.get("raise") for r in impl.get("runs", []))


# ---------------------------------------------------------------------------
def _c08_cases(tier):
    import props.c08 as c08
    rng = random.Random(f"C08:{core.env_seed()}")
    return list(c08.cases(rng, tier))


def case_stride(rng):
    h = 0.02
    dt = su.dt_1d_default(h)
    n = rng.choice([14000, 21000, 24000])
    return dict(dim="1D", config="shelf", height=h, k_s0=rng.choice([400, 2000]), t_tot=n * dt, start=20, stop=-50,
                rate=rng.choice([0.2, 0.5]), holds=None, cnTemp=None, Frand=rng.choice([0.3, 0.7, None]),
                kind="stride>1", row_stride=211)


def case_short(rng, dim):
    if dim == "0D":
        return dict(dim="0D", config="shelf", k_s0=50, t_tot=rng.choice([30, 400, 900, 1200]), start=20, stop=-50,
                    rate=0.1, holds=None, cnTemp=None, Frand=rng.choice([0.5, None]), kind="too-short")
    h = rng.choice([0.03, 0.05])
    dt = su.dt_1d_default(h)
    return dict(dim="1D", config="shelf", height=h, k_s0=400, t_tot=rng.choice([100, 900, 2500]) * dt, start=20,
                stop=-50, rate=0.5, holds=None, cnTemp=None, Frand=0.5, kind="too-short")


def case_reuse(rng, dim, order):
    """object histories: `good` completes, `bad` nucleates but cannot solidify, `never` cannot nucleate"""
    if dim == "0D":
        base = dict(dim="0D", config="shelf", k_s0=50, start=20, stop=-50, rate=0.5 / 60, holds=None, cnTemp=None,
                    Frand=None)
        t = {"good": 3 * 3600, "bad": 1.6 * 3600, "never": 600}
    else:
        h = 0.03
        dt = su.dt_1d_default(h)
        base = dict(dim="1D", config="shelf", height=h, k_s0=400, start=20, stop=-50, rate=0.5, holds=None,
                    cnTemp=None, Frand=0.5)
        t = {"good": 6500 * dt, "bad": 2500 * dt, "never": 100 * dt}
    progs = [dict(base, t_tot=t[o]) for o in order]
    c = dict(progs[0])
    c["runs"] = [{k: p[k] for k in ("t_tot", "start", "stop", "rate", "holds", "cnTemp", "Frand")} for p in progs[1:]]
    c["kind"] = "reuse:" + ">".join(order)
    return c


def cases_full_buffer():
    """Nt_exp = 20 000 (stride 2, exactly 10 000 cooling saves) with F_rand placed – by means of the
    model's E trace – so that nucleation happens in the last stride window (steps 19998 / 19999:
    the extra post-nucleation row does not fit -> IndexError) or just before it (step 19996: the
    row fits, solidification cannot complete -> ValueError)."""
    h, n = 0.02, 20000
    dt = su.dt_1d_default(h)
    base = dict(dim="1D", config="shelf", height=h, k_s0=2000, t_tot=(n - 1.5) * dt, start=-5, stop=-12.0, rate=0.5,
                holds=None, cnTemp=None, kind="full-buffer", row_stride=997)
    try:
        rec = su.record_inputs(base)
        drv = core.Driver()
        m = su.decode_model(drv.call(su.model_request(base, rec, Frand=1 - 1e-16, traces=True, row_stride=10 ** 9)))
        drv.close()
        E = m["Etrace"]
        if m["NtExp"] != n or len(E) != n:
            return
        for k in (19998, 19996):
            c = dict(base)
            c["Frand"] = 1 - math.exp(-(E[k - 1] + E[k]) / 2)
            c["kind"] = f"full-buffer:nucleation@{k}"
            yield c
    except Exception:
        return


def cases_reprogram():
    """ONE object, two programmes of the SAME length (same t_tot, same dt): the second run must simulate and
    report the second programme"""
    p0 = dict(dim="0D", config="shelf", k_s0=100, cnTemp=None, Frand=None, t_tot=3600, stop=-50)
    a0 = dict(p0, start=20, rate=0.1, holds=None)
    b0 = dict(p0, start=12.5, rate=0.25, holds=[[-5, 300]])
    h = 0.03
    dt = su.dt_1d_default(h)
    p1 = dict(dim="1D", config="shelf", height=h, k_s0=2000, cnTemp=None, Frand=0.5, t_tot=7900 * dt, stop=-50)
    a1 = dict(p1, start=20, rate=0.5, holds=None)
    b1 = dict(p1, start=10, rate=0.05, holds=None)
    out = []
    for a, b in ((a0, b0), (b1, a1)):
        c = dict(a)
        c["runs"] = [{k: b[k] for k in ("t_tot", "start", "stop", "rate", "holds", "cnTemp", "Frand")}]
        c["kind"] = "reuse:new-programme-same-t_tot"
        out.append(c)
    return out


def cases_nrep():
    """multi-repetition 0D studies (sequential): the results table is checked row by row, column by column"""
    p0 = dict(dim="0D", config="shelf", k_s0=100, cnTemp=None, Frand=None, stop=-50, holds=None, how="sequential")
    return [dict(p0, t_tot=3000, start=20, rate=0.1, Nrep=3, kind="Nrep=3"),
            dict(p0, t_tot=2500, start=10, rate=0.25, Nrep=2, kind="Nrep=2")]


def cases_2d_short(tier):
    """2D programmes too short for nucleation / for solidification (fresh object: every accessor must raise)"""
    h = 0.05
    dt2 = su.dt_2d_default(h, h)
    base = dict(dim="2D", config="shelf", height=h, diameter=h, k_s0=2000, start=20, stop=-50, rate=0.5, holds=None,
                cnTemp=None, Frand=0.5, kind="2D-too-short")
    out = [dict(base, t_tot=120 * dt2), dict(base, t_tot=1500 * dt2)]
    if tier != "quick":
        out.append(dict(base, t_tot=9500 * dt2, config="jacket", kind="2D-jacket",
                        yaml={"jacket": {"air_gap": 0.001, "lambda_air": 0.025}}))
    return out


def cases_nrep_later_fails():
    """ONE object, sequential study of several repetitions: first a programme in which every seed freezes, then a
    t_tot placed - by means of single model runs per seed - between the freezing times of two seeds, so that
    repetition 0 completes and a LATER repetition fails: run() raises and nothing of the failed study may be shown"""
    p0 = dict(dim="0D", config="shelf", k_s0=100, start=20, stop=-50, rate=0.1, holds=None, cnTemp=None, Frand=None)
    try:
        rec = su.record_inputs(dict(p0, t_tot=3000))
        drv = core.Driver()
        tf = []
        for i in range(8):
            m = su.decode_model(drv.call(su.model_request(dict(p0, t_tot=3000), rec, Frand=su.recorded_frand(i),
                                                          row_stride=10 ** 9)))
            tf.append(m["stats"]["t_fr"] * 60 if not m["raise"] else None)
        drv.close()
        if any(t is None for t in tf):
            return
        j = next((j for j in range(1, 8) if tf[j] > max(tf[:j]) + 0.25), None)
        if j is None:
            return
        short = (tf[j] + max(tf[:j])) / 2
        c = dict(p0, t_tot=3000, Nrep=j + 1, how="sequential", kind=f"Nrep={j + 1}:later-repetition-fails")
        c["runs"] = [dict(t_tot=short, start=20, stop=-50, rate=0.1, holds=None, cnTemp=None, Frand=None)]
        yield c
        # the same borderline programme on FRESH objects, in both execution modes: the study must raise (the
        # pool's exception must not be swallowed) - never a table with the failed seeds silently missing
        for how in ("async", "sequential"):
            yield dict(p0, t_tot=short, Nrep=j + 1, how=how, kind=f"Nrep={j + 1}:{how}:one-repetition-fails")
        # … and an asynchronous study in which every seed completes (table row i = seed i)
        yield dict(p0, t_tot=3000, Nrep=j + 1, how="async", kind=f"Nrep={j + 1}:async:complete")
    except Exception:
        return


def cases_thaw_refreeze(tier):
    """VISF, shelf held at -1 C: the vacuum window freezes the product past 90 %, after the release it thaws back
    below 90 %, the final ramp refreezes it - the integrated frozen fraction is NOT monotone and t_sol must be
    its FIRST up-crossing (1D, 12 mm layer: 46 000 steps, save stride 5)"""
    base = dict(dim="1D", config="VISF", height=0.012, diameter=0.02, k_s0=400, t_tot=2760, start=5, stop=-40,
                rate=0.2, holds=[[-1, 1500]], cnTemp=None, Frand=None, kind="thaw-refreeze", row_stride=997,
                yaml={"VISF": {"t_vac_start": 60 / 3600, "t_vac_duration": 660 / 3600, "p_vac": 30, "kappa": 0.02},
                      "solution": {"solid_fraction": 0.05}})
    out = [base]
    if tier != "quick":
        out.append(dict(base, k_s0=200, Frand=0.3))
    return out


def cases_late_stride():
    """a 1D process of 24 000 steps (cooling stride 3) whose nucleation is placed - by means of the model's E
    trace - at step ~15 000 during a hold at -10 C, so that the solidification stage has fewer than 10 000 steps
    and ITS stride is 1: the two stages are recorded with different strides"""
    h, n, k_target = 0.02, 24000, 15000
    dt = su.dt_1d_default(h)
    base = dict(dim="1D", config="shelf", height=h, k_s0=2000, t_tot=(n - 1.5) * dt, start=20, stop=-50, rate=0.5,
                holds=[[-10.0, 15600 * dt]], cnTemp=None, kind="late-nucleation:strides-differ", row_stride=499)
    try:
        rec = su.record_inputs(base)
        drv = core.Driver()
        m = su.decode_model(drv.call(su.model_request(base, rec, Frand=1 - 1e-16, traces=True, row_stride=10 ** 9)))
        drv.close()
        E = m["Etrace"]
        if m["NtExp"] != n or len(E) <= k_target or not (1e-14 < E[k_target] < 20) or E[k_target] <= E[k_target - 1]:
            return
        c = dict(base)
        c["Frand"] = 1 - math.exp(-(E[k_target - 1] + E[k_target]) / 2)
        yield c
    except Exception:
        return


def cases_two_objects(tier="thorough"):
    """TWO objects of the same configuration (same grid shape) in one process: the first one's histories are
    copied at first read and read AGAIN after the second object has run"""
    h = 0.05
    dt = su.dt_1d_default(h)
    a = dict(dim="1D", config="shelf", height=h, k_s0=2000, t_tot=5000 * dt, start=20, stop=-50, rate=0.5, holds=None,
             cnTemp=None, Frand=0.4, kind="two-objects", row_stride=97,
             then_other=dict(start=10, rate=0.25, t_tot=6000 * dt, Frand=0.7, k_s0=400))
    h2 = 0.05
    dt2 = su.dt_2d_default(h2, h2)
    b = dict(dim="2D", config="shelf", height=h2, diameter=h2, k_s0=2000, t_tot=9500 * dt2, start=20, stop=-50, rate=0.5,
             holds=None, cnTemp=None, Frand=0.5, kind="two-objects", row_stride=499,
             then_other=dict(start=12, t_tot=300 * dt2, Frand=0.3))
    return [a] if tier == "quick" else [a, b]


def cases_unstable():
    """a shelf coefficient far beyond the stability range of the grid (1D, 5 cm, s0 = 10 000): the field turns
    non-finite before 90 % is frozen - the run must raise, never report times and NaN histories"""
    return [dict(dim="1D", config="shelf", height=0.05, k_s0=10000, t_tot=6000, start=20, stop=-50, rate=0.5, holds=None,
                 cnTemp=None, Frand=0.5, kind="unstable-coefficient")]


def cases(rng, tier):
    for c in cases_unstable():
        yield c
    for c in cases_two_objects(tier):
        yield c
    for c in cases_thaw_refreeze(tier):
        yield c
    for c in cases_late_stride():
        yield c
    yield su.jacket_case()
    for c in cases_nrep_later_fails():
        yield c
    for c in cases_2d_short(tier):
        yield c
    for c in cases_reprogram() + cases_nrep():
        yield c
    for c in cases_full_buffer():
        yield c
    # the K6 input of DESIGN section 7 first
    yield case_reuse(rng, "0D", ("good", "bad"))
    yield case_reuse(rng, "0D", ("bad", "good"))
    yield case_reuse(rng, "0D", ("good", "never", "good"))
    yield case_reuse(rng, "1D", ("good", "bad"))
    yield case_reuse(rng, "1D", ("never", "good"))
    for c in _c08_cases(tier):
        c = dict(c)
        c["kind"] = "c08"
        yield c
    ns, nsh = (0, 10) if tier == "quick" else (12, 40)
    for c in su.stride_cases():
        yield dict(c)
    for _ in range(ns):
        yield case_stride(rng)
    for i in range(nsh):
        yield case_short(rng, "0D" if i % 2 else "1D")


def widen(rng, tier):
    for _ in range(6):
        yield case_stride(rng)
    for i in range(20):
        yield case_short(rng, "0D" if i % 2 else "1D")
