"""C04 Shelf-scale results depend only on configuration and seeds.

Model: lean/SnowModel/Seeds.lean (the Snowflake object as a state machine, `run`
returning the draw schedule; Snowfall = ordered chunks on private copies of the
template).  Theorems: lean/SnowProofs/Props/C04.lean.

Tie to the code: `np.random.default_rng` is replaced IN THE HARNESS PROCESS by a
recording proxy (inherited by forked pool workers).  Every generator creation and
every call is logged with the position it was made at (stream seed + calls made
before on that generator; the per-step `random(n)` calls of one run are collapsed
into one `dice` token).  Histories of operations are executed on real objects and
the logged events and the draw schedule of every run are compared with the model;
`stats` are compared bit for bit between real runs the theorems say are equal.
"""
from __future__ import annotations

import hashlib
import os

import shim  # noqa: F401
import numpy as np

import core
from core import Failure

ID = "C04"
TITLE = "Shelf-scale results depend only on configuration and seeds"
LEAN_MODULE = "SnowProofs.Props.C04"
THEOREMS = [
    dict(name="Snow.C04.run_sched", clause="any object state: a run uses the canonical draw schedule of its seed and shape", strength="full"),
    dict(name="Snow.C04.run_schedule_canonical", clause="every history ++ [seed = s, run] has the schedule of a fresh Snowflake(seed=s).run()", strength="full"),
    dict(name="Snow.C04.run_outcome_canonical", clause="every history incl. seed_v assignments and property reads: generator schedule and vial deviates (seed_v, N) of the run equal those of a fresh Snowflake(seed=s, seed_v=v)", strength="full"),
    dict(name="Snow.C04.run_config_current", clause="every history incl. in-place edits / replacement of the attached configuration: the run reads the configuration attached at that moment (and schedule, vial deviates as for a fresh object)", strength="full"),
    dict(name="Snow.C04.run_schedule_canonical_same_seed", clause="every history ++ [run] has the fresh schedule of the seed in force", strength="full"),
    dict(name="Snow.C04.record_independent", clause="model: object, events, schedules, vial deviates, configurations are equal for any two deterministic storage selections (no transition of the model reads such a mask - true by the model's shape; that the CODE behaves so rests on the correspondence: bit-identical stats across storeStates variants incl. final-step events)", strength="by-construction"),
    dict(name="Snow.C04.random_mask_run_canonical", clause="a `random` storage selection consumes a draw at construction, yet every run after any history uses the canonical schedule of its seed (run() restarts the generator)", strength="full"),
    dict(name="Snow.C04.old_random_mask_shifts_dice", clause="pre-repair code: a random storage selection shifts the dice of the first run", strength="refutation-of-old-code"),
    dict(name="Snow.C04.run_outcome_some", clause="the last-run statements are about a run that exists: scheds != [] and the last schedule / vial deviates / configuration are the canonical ones", strength="full"),
    dict(name="Snow.C04.snowfall_mode_independent", clause="every mode, repetition count and chunking: task i has schedule canon(cfg, i)", strength="full"),
    dict(name="Snow.C04.snowfall_pool_eq_seq", clause="pool table = sequential table for every ordered partition", strength="full"),
    dict(name="Snow.C04.snowfall_rep_standalone", clause="repetition i = Snowflake(seed=i).run() (schedule, hence any result function of it)", strength="full"),
    dict(name="Snow.C04.old_counterexample_double_build", clause="pre-repair code: fresh object draws the shelf normals twice", strength="refutation-of-old-code"),
    dict(name="Snow.C04.old_counterexample_stale_seed", clause="pre-repair code: equal seed keeps the stale shelf vector", strength="refutation-of-old-code"),
    dict(name="Snow.C04.old_counterexample_rerun", clause="pre-repair code: a second run continues the stream", strength="refutation-of-old-code"),
    dict(name="Snow.C04.old_counterexample_snowfall", clause="pre-repair code: Snowfall repetition 0 is not the standalone run", strength="refutation-of-old-code"),
    dict(name="Snow.C04.old_partial_no_variability", clause="pre-repair code, s_sigma_rel = 0: a re-seeded run starts its dice at the head of the stream", strength="refutation-of-old-code"),
    dict(name="Snow.C04.nonvacuous", clause="concrete history / chunking instance", strength="nonvacuity"),
]
TRUSTED = [
    "Lean 4.33 kernel; axioms per theorem listed under coverage.axioms",
    "numpy generators: output is a function of the seed and of the sequence of calls made (positions are abstract; no PRNG algorithm is modelled)",
    "statistics of a run are a function of configuration and draw schedule (checked here: equal observed schedules give bit-identical stats)",
    "multiprocessing.Pool: each chunk is unpickled once and runs its tasks in order on that private copy (observed per task: pid + object tag); chunk sizes compared with the modelled ceil(n/(4*pool))",
    "hand-written model SnowModel/Seeds.lean tied to snowflake.py / snowfall.py by this differential check",
]
ASSUMPTIONS = [
    "storage selections: deterministic ones throughout; `random_n` selections (they consume a draw at construction) in dedicated histories - statistics still must equal the non-recording fresh run",
    "configuration (k, opcond, dt, constants) is not mutated between operations; N_vials may be reassigned (storeStates=None)",
    "reference runs: fresh objects with the initial state and the overridden configuration keys given explicitly; for the "
    "cross-object streams (several objects / Snowfall after other objects in one process) they are computed in a fresh interpreter",
    "the generator proxy observes the KIND and number of draws (normal / uniform / choice) and the stream position, not the "
    "call form; event-by-event differences and CPython's pool batching are reported as diagnostics, the verdict rests on "
    "the draw schedule and on bit-identical statistics",
    "runs in which no vial nucleates (all-NaN statistics) do not count as non-trivial",
]
RULE = ("histories of up to 6 (quick) / 9 (thorough) operations new/seed=/seed_v=/edits of the attached opcond and dt/`_buildHeatflowMatrices`/run/N_vials=/"
        "reads of H_shelf and H_int in both orders on real "
        "3x3-and-smaller shelves with and without shelf variability; Snowfall in sequential/async/sync x pool_size "
        "{1,2,3,5} x Nrep {1,2,5,9} (also run twice); a case is non-trivial when it contains a run whose statistics "
        "have at least one nucleated vial")
EXPLANATION = ("Lean theorems about the draw-schedule state machine + differential check of generator events, schedules "
               "and bit-identical stats on the real Snowflake/Snowfall objects")
PARALLEL = True

# ---------------------------------------------------------------------------
# recording proxy
# ---------------------------------------------------------------------------
_REAL_RNG = np.random.default_rng
EVENTS = []          # per process
_OP = [0]            # operation counter of this process


def _opid():
    return (os.getpid(), _OP[0])


class RecGen:
    """Stands in for numpy.random.Generator; logs creation and calls."""

    def __init__(self, seed):
        self.seed = int(seed)
        self.g = _REAL_RNG(seed)
        self.hist = []          # collapsed calls so far
        self.dice_op = None     # operation that owns the last `dice` token
        EVENTS.append(("create", self.seed))

    def _pos(self):
        return [self.seed, [list(c) for c in self.hist]]

    # which kind of draw a Generator method is: the call FORM (normal vs standard_normal, keyword vs positional
    # size, random vs uniform) is not observed, only the kind and the number of values drawn
    KINDS = {"normal": "normal", "standard_normal": "normal", "random": "dice", "uniform": "dice",
             "choice": "choice", "permutation": "choice", "shuffle": "choice"}

    def _draw(self, name, a, kw):
        res = getattr(self.g, name)(*a, **kw)
        kind = self.KINDS[name]
        n = int(np.size(res))
        if kind == "dice":
            if self.dice_op != _opid() or not self.hist or self.hist[-1] != ("dice",):
                EVENTS.append(("dice", None, self._pos()))
                self.hist.append(("dice",))
                self.dice_op = _opid()
        else:
            EVENTS.append((kind, n, self._pos()))
            self.hist.append((kind, n))
        return res

    def __getattr__(self, name):
        if name.startswith("__") or "g" not in self.__dict__:
            raise AttributeError(name)
        if name in self.KINDS:
            return lambda *a, **kw: self._draw(name, a, kw)
        EVENTS.append(("other:" + name, None, self._pos()))
        return getattr(self.g, name)


_installed = [False]


def _install():
    if _installed[0]:
        return
    _installed[0] = True
    from ethz_snow.snowfall import Snowfall
    import sys

    def default_rng(seed=None):
        # only the package under test gets the recording proxy
        if str(sys._getframe(1).f_globals.get("__name__", "")).startswith("ethz_snow"):
            return RecGen(seed)
        return _REAL_RNG(seed)

    np.random.default_rng = default_rng

    # the global legacy generator (vial-dependent deviates): np.random.seed(seed_v); np.random.rand(N)
    real_seed, real_rand = np.random.seed, np.random.rand
    pending = [None]

    def seed(*a, **kw):
        if str(sys._getframe(1).f_globals.get("__name__", "")).startswith("ethz_snow"):
            pending[0] = int(a[0]) if a else None
        return real_seed(*a, **kw)

    def rand(*a, **kw):
        if str(sys._getframe(1).f_globals.get("__name__", "")).startswith("ethz_snow"):
            EVENTS.append(("xi", pending[0], int(a[0]) if a else 1))
            pending[0] = None      # a second draw without re-seeding would show as seed None
        return real_rand(*a, **kw)

    np.random.seed, np.random.rand = seed, rand

    orig_a = Snowfall._uniqueFlake.__func__
    orig_s = Snowfall._uniqueFlake_sync.__func__

    def uf(cls, S, seed):
        mark = _begin()
        tag = _tag(S)
        r = orig_a(cls, S, seed)
        r["_c04"] = _task_obs(S, mark, tag)
        return r

    def uf_sync(cls, S, seed, return_dict):
        mark = _begin()
        tag = _tag(S)
        orig_s(cls, S, seed, return_dict)
        d = return_dict[seed]
        d["_c04"] = _task_obs(S, mark, tag)
        return_dict[seed] = d

    uf.__name__ = uf.__qualname__ = "_uniqueFlake"
    uf_sync.__name__ = uf_sync.__qualname__ = "_uniqueFlake_sync"
    Snowfall._uniqueFlake = classmethod(uf)
    Snowfall._uniqueFlake_sync = classmethod(uf_sync)


_TAGS = [0]
_SEQ = [0]


def _tag(S):
    """identify the object copy a task runs on: (pid, serial), assigned on first sight in this process"""
    t = getattr(S, "_c04_tag", None)
    if t is None or t[0] != os.getpid():
        _TAGS[0] += 1
        t = (os.getpid(), _TAGS[0])
        S._c04_tag = t
    return list(t)


def _begin():
    _OP[0] += 1
    return len(EVENTS)


def _plain(evs):
    out = []
    for e in evs:
        if e[0] == "create":
            out.append(["create", e[1]])
        elif e[0] == "normal":
            out.append(["normal", e[1]])
        elif e[0] == "xi":
            out.append(["xi", e[1], e[2]])
        elif e[0] == "choice":
            out.append(["choice", e[1]])
        else:
            out.append([e[0]])
    return out


def _note_shelf(S, evs):
    for e in evs:
        if e[0] == "normal":
            S._c04_shelf = ["drawn", e[2], e[1]]


def _sched(S, evs):
    dice = next((e[2] for e in evs if e[0] == "dice"), None)
    if np.ndim(S._H_shelf) == 0:
        shelf = ["scalar", bool(S.k["shelf"] == 0)]
    else:
        shelf = getattr(S, "_c04_shelf", None)
    return {"nv": [int(x) for x in S.N_vials], "shelf": shelf, "dice": dice}


def _digest(stats):
    h = hashlib.sha1()
    for k in ("t_nucleation", "T_nucleation", "t_solidification"):
        h.update(np.ascontiguousarray(stats[k], dtype=float).tobytes())
    return h.hexdigest()[:16]


def _task_obs(S, mark, tag):
    evs = EVENTS[mark:]
    _note_shelf(S, evs)
    _SEQ[0] += 1
    return {"tag": tag, "seq": _SEQ[0], "evs": _plain(evs), "sched": _sched(S, evs),
            "digest": _digest(S.stats), "nucleated": int(np.sum(~np.isnan(S.stats["t_nucleation"])))}


# ---------------------------------------------------------------------------
# real objects
# ---------------------------------------------------------------------------
def _k(case):
    k = {"int": 20, "ext": 20, "s0": 20}
    k.update((case.get("kw") or {}).get("k_mod") or {})
    if case["sigma"] is not None:
        k["s_sigma_rel"] = case["sigma"]
    return k


DT = 5
T_TOT = [1000]   # process time of the runs of the current case (set per case, see `_final_event`)


def _spec(case, k=0, start=None):
    """configuration number k of the case as a COMPLETE specification (0 = the base configuration)"""
    base = {"rate": 0.1, "end": -45, "holding": None, "t_tot": T_TOT[0], "dt": DT, "how": "inplace", "start": 5}
    cfgs = case.get("cfgs") if case else None
    if cfgs and k:
        base.update(cfgs[k])
    if start is not None:
        base["start"] = start       # start temperature of the cooling programme = initial vial temperature
    return base


def _opcond(spec=None):
    from ethz_snow.operatingConditions import OperatingConditions

    spec = spec or _spec(None)
    hold = None if spec["holding"] is None else [dict(temp=t, duration=d) for t, d in spec["holding"]]
    return OperatingConditions(t_tot=spec["t_tot"], cooling={"rate": spec["rate"], "start": spec["start"], "end": spec["end"]},
                               holding=hold)


def _apply_cfg(S, spec):
    """bring the attached configuration of a USED object to `spec`"""
    if spec["how"] == "new":
        S.opcond = _opcond(spec)
    else:   # edit the attached OperatingConditions object in place
        S.opcond.cooling["rate"] = spec["rate"]
        S.opcond.cooling["end"] = spec["end"]
        S.opcond.holding = None if spec["holding"] is None else [dict(temp=t, duration=d) for t, d in spec["holding"]]
        S.opcond.t_tot = spec["t_tot"]
    S.dt = spec["dt"]


def _final_event(case):
    """`final = {event, rank}`: choose the process time so that a nucleation / solidification stamp is
    made in the FINAL time step of the run (the run is cut off mid-freezing): from a long reference run,
    t_tot = t_nuc_i - dt (nucleation in the step taken from t_tot) or t_nuc_i + t_sol_i (flagged solid at t_tot)."""
    f = case.get("final")
    if not f:
        return None
    new = case["ops"][0]
    T_TOT[0] = 20000      # long reference run: everything freezes
    try:
        S = _flake(case, new[1], new[2:5])
        S.run()
    finally:
        T_TOT[0] = 1000
    tn, ts = S.stats["t_nucleation"], S.stats["t_solidification"]
    cand = sorted(float(x) - DT for x in tn if not np.isnan(x)) if f["event"] == "nuc" else \
        sorted(float(a + b) for a, b in zip(tn, ts) if not np.isnan(a + b))
    cand = [c for c in cand if c >= DT]
    if not cand:
        return None
    return cand[min(f["rank"], len(cand) - 1)]


def _kw(case):
    """pass-through keyword arguments of the case (Snowfall hands them to its template)"""
    kw = dict(case.get("kw") or {})
    if "configPath" in kw:
        kw["configPath"] = _config_file(kw["configPath"])
    if "k_mod" in kw:
        kw.pop("k_mod")
    return kw


def _config_file(text):
    d = core.VERIF / ".cache" / "c04"
    d.mkdir(parents=True, exist_ok=True)
    p = d / (hashlib.sha1(text.encode()).hexdigest()[:10] + ".yaml")
    if not p.exists():
        tmp = d / f"{p.name}.{os.getpid()}.tmp"
        tmp.write_text(text)
        os.replace(tmp, p)
    return str(p)


# nested keys of the YAML configuration that cases override; the reference objects spell ALL of them out
YAML_KEYS = ["solution.solid_fraction", "water.cp_w", "kinetics.b"]
_yaml_defaults = {}


def _yaml_text(flat):
    import yaml

    tree = {}
    for key, val in flat.items():
        a, b = key.split(".")
        tree.setdefault(a, {})[b] = val
    return yaml.safe_dump(tree)


def _yaml_for(over, explicit):
    """configPath for an object: the overrides only (object under test; None = packaged defaults), or - for the
    reference - every key of YAML_KEYS spelt out: packaged default (read from the YAML file itself) or override"""
    if not explicit:
        return _config_file(_yaml_text(over)) if over else None
    if not _yaml_defaults:
        import yaml

        with open(core.REPO / "src" / "ethz_snow" / "config" / "snowConfig_default.yaml") as fh:
            tree = yaml.safe_load(fh)
        for key in YAML_KEYS:
            a, b = key.split(".")
            _yaml_defaults[key] = tree[a][b]
    flat = dict(_yaml_defaults)
    flat.update(over or {})
    return _config_file(_yaml_text(flat))


def _init_temp(case, explicit, default):
    """the `initialStates` argument: None = the constructor's default.  `init = {form, value}`: the initial
    temperature as a one-element list / tuple / array or a numpy scalar; the reference gives it as a plain float"""
    init = case.get("init")
    if init is None:
        return {"temp": default, "sigma": None} if explicit else None
    v = init["value"]
    if explicit:
        return {"temp": float(v), "sigma": None}
    temp = {"list": [v], "tuple": (v,), "array": np.array([v], dtype=float), "npfloat": np.float64(v),
            "intarray": np.array([int(v)])}[init["form"]]
    return {"temp": temp, "sigma": None}


def _flake(case, seed, nv, store=None, seed_v=None, cfg=0, start=None, explicit=False, yamlover=None):
    """`explicit`: the reference objects - initial state and configuration values are given as arguments; otherwise
    the constructor's default `initialStates` and the packaged default configuration (plus the overrides) are used"""
    from ethz_snow.snowflake import Snowflake

    spec = _spec(case, cfg, start)
    kw = _kw(case)
    kw.pop("seed", None)          # Snowfall chooses the seeds itself
    kw.pop("storeStates", None)   # ... and never stores states
    if seed_v is not None:
        kw["seed_v"] = seed_v
    kw.setdefault("dt", spec["dt"])
    ini = _init_temp(case, explicit, spec["start"])
    if ini is not None:
        kw["initialStates"] = ini
    if "configPath" not in kw:
        path = _yaml_for(yamlover, explicit)
        if path:
            kw["configPath"] = path
    return Snowflake(k=_k(case), N_vials=tuple(nv), seed=seed, opcond=_opcond(spec), storeStates=store, **kw)


_PENDING = []      # reference runs of the current case that are to be made in a fresh interpreter


def _fresh(case, seed, nv, cache, seed_v=None, cfg=0, start=None, yamlover=None):
    key = (seed, tuple(nv), seed_v, cfg, start, core.json.dumps(yamlover, sort_keys=True))
    if case.get("xref"):
        # cross-object streams: whatever an earlier object of THIS process may have left in class- or module-level
        # state must not reach the reference - it is computed in a fresh interpreter (see `_resolve`)
        if key not in cache:
            cache[key] = {"pending": len(_PENDING)}
            _PENDING.append(dict(seed=seed, nv=list(nv), seed_v=seed_v, cfg=cfg, start=start, yamlover=yamlover))
        return cache[key]
    if key not in cache:
        # the reference states its initial temperature explicitly: nothing an earlier object of this process may
        # have left in a shared default can reach it
        S = _flake(case, seed, nv, seed_v=seed_v, cfg=cfg, start=start, explicit=True, yamlover=yamlover)
        S.run()
        cache[key] = _digest(S.stats)
    return cache[key]


def _ref_main(req):
    """entry point of the fresh interpreter: digests of the requested reference runs"""
    T_TOT[0] = req["t_tot"]
    out = []
    for r in req["refs"]:
        S = _flake(req["case"], r["seed"], r["nv"], seed_v=r["seed_v"], cfg=r["cfg"], start=r["start"], explicit=True,
                   yamlover=r["yamlover"])
        S.run()
        out.append(_digest(S.stats))
    return out


def _resolve(case, holders):
    """run the pending references in ONE fresh interpreter and put the digests where the tokens are"""
    if not _PENDING:
        return
    import subprocess
    import sys

    code = ("import sys, json; sys.path.insert(0, %r); from props import c04; "
            "print('DIGESTS ' + json.dumps(c04._ref_main(json.loads(sys.stdin.read()))))" % str(core.VERIF / "harness"))
    req = {"case": {k: v for k, v in case.items() if k not in ("ops",)}, "refs": list(_PENDING), "t_tot": T_TOT[0]}
    del _PENDING[:]
    r = subprocess.run([sys.executable, "-c", code], input=core.json.dumps(req), capture_output=True, text=True,
                       timeout=600)
    line = next((l for l in r.stdout.splitlines() if l.startswith("DIGESTS ")), None)
    if line is None:
        raise RuntimeError("reference interpreter failed: " + r.stderr[-600:])
    digests = core.json.loads(line[8:])
    for h in holders:
        if isinstance(h.get("fresh"), dict) and "pending" in h["fresh"]:
            h["fresh"] = digests[h["fresh"]["pending"]]


def _run_history(case, store=None):
    S = None
    ops_obs = []
    fresh = {}
    cfg = 0
    n_new, start, yamlover = 0, None, None
    for op in case["ops"]:
        mark = _begin()
        o = {"op": op}
        if op[0] == "new":
            # successive objects of one history (one process) are built for different start temperatures
            starts = case.get("starts") or [None]
            start = starts[n_new % len(starts)]
            configs = case.get("configs") or [None]
            yamlover = configs[n_new % len(configs)]
            n_new += 1
            S = _flake(case, op[1], op[2:5], store, start=start, yamlover=yamlover)
            cfg = 0
        elif op[0] == "editCfg":
            cfg = op[1]
            _apply_cfg(S, _spec(case, cfg, start))
        elif op[0] == "setSeed":
            S.seed = op[1]
        elif op[0] == "build":
            S._buildHeatflowMatrices()
        elif op[0] == "setN":
            S.N_vials = tuple(op[1:4])
        elif op[0] == "setSeedV":
            S.seed_v = op[1]
        elif op[0] == "readShelf":
            _ = S.H_shelf
        elif op[0] == "readInt":
            _ = S.H_int
        elif op[0] == "run":
            S.run()
        evs = EVENTS[mark:]
        _note_shelf(S, evs)
        o["evs"] = _plain(evs)
        if op[0] == "run":
            o["sched"] = _sched(S, evs)
            o["digest"] = _digest(S.stats)
            o["nucleated"] = int(np.sum(~np.isnan(S.stats["t_nucleation"])))
            o["seed"] = int(S.seed)
            o["seed_v"] = int(S.seed_v)
            o["xi"] = next(([e[1], e[2]] for e in evs if e[0] == "xi"), None)
            o["cfg"] = cfg
            o["start"] = start
            o["yaml"] = yamlover
            o["fresh"] = _fresh(case, int(S.seed), list(S.N_vials), fresh, int(S.seed_v), cfg, start, yamlover)
        ops_obs.append(o)
    _resolve(case, ops_obs)
    return ops_obs


def _run_fall(case):
    from ethz_snow.snowfall import Snowfall

    if case.get("decoy_start") is not None or case.get("decoy_yaml"):
        # another object built earlier in this process: other start temperature / custom configuration file
        _flake(case, 1, case["nv"], start=case.get("decoy_start"), yamlover=case.get("decoy_yaml"))
    kw = _kw(case)
    kw.setdefault("dt", DT)
    ini = _init_temp(case, False, None)
    if ini is not None:
        kw["initialStates"] = ini
    if case.get("yaml") and "configPath" not in kw:
        kw["configPath"] = _yaml_for(case["yaml"], False)
    mark = _begin()
    F = Snowfall(Nrep=case["nrep"], pool_size=case["pool"], k=_k(case), N_vials=tuple(case["nv"]),
                 opcond=_opcond(_spec(case, 0, case.get("start"))), **kw)
    evs = EVENTS[mark:]
    _note_shelf(F.Sf_template, evs)
    obs = {"init_evs": _plain(evs), "passes": []}
    fresh = {}
    # the TEMPLATE is edited after the Snowfall has been built (its matrices were pre-built then): entries of k,
    # the attached operating conditions / time step.  Every mode must give the same repetitions.
    te = case.get("tmpl_edit") or {}
    for key, val in (te.get("k") or {}).items():
        F.Sf_template.k[key] = val
    if te.get("cfg"):
        _apply_cfg(F.Sf_template, _spec(case, te["cfg"], case.get("start")))
    # edits of k after the matrices exist are outside the stated assumptions (the pre-built matrices are kept by
    # every mode alike): for them only the agreement of the modes is judged, not the stand-alone run
    obs["no_fresh"] = bool(te.get("k"))
    for how in case["hows"]:
        F.run(how=how)
        tasks = []
        for i in sorted(F.stats):
            st = F.stats[i]
            t = st.pop("_c04")
            t["seed"] = int(i)
            t["digest_parent"] = _digest(st)
            t["fresh"] = t["digest_parent"] if obs["no_fresh"] else \
                _fresh(case, int(i), case["nv"], fresh, (case.get("kw") or {}).get("seed_v"), te.get("cfg", 0),
                       case.get("start"), case.get("yaml"))
            tasks.append(t)
        # chunks: tasks grouped by the object copy they ran on, in execution order
        groups = {}
        for t in sorted(tasks, key=lambda t: (t["tag"], t["seq"])):
            groups.setdefault(tuple(t["tag"]), []).append(t["seed"])
        chunks = sorted(groups.values(), key=lambda c: c[0])
        _resolve(case, tasks)
        obs["passes"].append({"how": how, "keys": [int(i) for i in sorted(F.stats)],
                              "tasks": tasks, "chunks": chunks,
                              "same_object": len(groups) == 1 and how == "sequential"})
    return obs


def run_impl(case):
    _install()
    try:
        if case["kind"] == "history":
            rnd = case.get("random_store")
            return {"raise": None, "ops": _run_history(case, f"random_{rnd}" if rnd else None)}
        if case["kind"] == "record":
            t_tot = _final_event(case)
            try:
                if t_tot is not None:
                    T_TOT[0] = t_tot
                obs = {"raise": None, "t_tot": T_TOT[0],
                       "variants": [{"store": s, "ops": _run_history(case, _store(s))} for s in case["stores"]]}
            finally:
                T_TOT[0] = 1000
            if t_tot is not None:
                # is there really a stamp from the last step?  (all-vials recording run)
                obs["final_stamp"] = _has_final_stamp(case, t_tot)
            return obs
        if case["kind"] == "fall":
            o = _run_fall(case)
            o["raise"] = None
            return o
    except Exception as e:  # an implementation exception
        import traceback

        return {"raise": core.exc_class(e), "tb": traceback.format_exc()[-800:]}
    raise ValueError("unknown case kind")


def _has_final_stamp(case, t_tot):
    T_TOT[0] = t_tot
    try:
        new = case["ops"][0]
        S = _flake(case, new[1], new[2:5], "all")
        S.run()
    finally:
        T_TOT[0] = 1000
    tn, ts = S.stats["t_nucleation"], S.stats["t_solidification"]
    return bool(np.any(tn == t_tot + DT) or np.any(tn + ts == t_tot))


def _store(s):
    if isinstance(s, list):
        return tuple(s)
    return s


# ---------------------------------------------------------------------------
# model
# ---------------------------------------------------------------------------
def _sigma_pos(case):
    return case["sigma"] is not None and case["sigma"] > 0


def _chunk_ops(seeds):
    out = []
    for i in seeds:
        out += [["setSeed", int(i)], ["run"]]
    return out


def run_model(drv, case):
    if case["kind"] in ("history", "record"):
        extra = {"random": case["random_store"]} if case.get("random_store") else {}
        r = drv.call({"op": "c04_chunks", "sigmaPos": _sigma_pos(case), "pre": case["ops"], **extra})
        if "error" in r:
            raise RuntimeError(r["error"])
        old = drv.call({"op": "c04_chunks", "sigmaPos": _sigma_pos(case), "old": True, "pre": case["ops"], **extra})
        return {"trace": r["pre"], "trace_old": old["pre"]}
    # Snowfall: the model is driven with the OBSERVED chunking (the theorems hold for every chunking);
    # this needs the implementation's observation, so it is done in `compare`
    r = drv.call({"op": "c04_poolChunks", "nrep": case["nrep"], "pool": case["pool"]})
    if "error" in r:
        raise RuntimeError(r["error"])
    return {"poolChunks": r["chunks"], "_drv": drv}


def _cmp_trace(ops_obs, trace, dis, where=""):
    runs = 0
    for i, o in enumerate(ops_obs):
        if o["evs"] != trace["evs"][i] and not any(d.startswith("TIE:") for d in dis):
            # the call pattern is a diagnostic; the verdict is about the draw schedule and the results
            dis.append(f"TIE: [diagnostic, not a verdict] {where}op {i} {o['op']}: generator events impl {o['evs']} vs "
                       f"model {trace['evs'][i]}")
        if o["op"][0] == "run":
            if o["sched"] != trace["scheds"][runs]:
                dis.append(f"{where}op {i} run: schedule impl {o['sched']} vs model {trace['scheds'][runs]}")
                return
            if o["cfg"] != trace["cfgs"][runs]:
                dis.append(f"{where}op {i} run: configuration {o['cfg']} attached vs model {trace['cfgs'][runs]}")
                return
            if o["xi"] != trace["xis"][runs]:
                dis.append(f"{where}op {i} run: vial deviates drawn with (seed_v, N) = {o['xi']} vs model {trace['xis'][runs]}")
                return
            runs += 1


def _same_sched_same_stats(runs, dis):
    """correspondence assumption: the statistics are a function of configuration and schedule"""
    seen = {}
    for sched, digest in runs:
        key = core.json.dumps(sched, sort_keys=True)
        if key in seen and seen[key] != digest:
            dis.append(f"equal observed schedules give different stats: {sched}")
            return
        seen.setdefault(key, digest)


def compare(case, impl, model):
    dis = []
    if impl.get("raise"):
        dis.append(f"implementation raised {impl['raise']}: {impl.get('tb', '')[-300:]}")
        return dis
    if case["kind"] == "history":
        _cmp_trace(impl["ops"], model["trace"], dis)
        hard = [d for d in dis if not d.startswith("TIE:")]
        if hard:
            d_old = []
            _cmp_trace(impl["ops"], model["trace_old"], d_old)
            if not [d for d in d_old if not d.startswith("TIE:")]:
                dis[dis.index(hard[0])] = ("implementation follows the PRE-REPAIR model (runOld, defect F3), not the "
                                           "repaired one: " + hard[0])
        _same_sched_same_stats([([o["sched"], o["xi"], o["cfg"], o["start"], o["yaml"]], o["digest"]) for o in impl["ops"] if o["op"][0] == "run"], dis)
    elif case["kind"] == "record":
        for v in impl["variants"]:
            _cmp_trace(v["ops"], model["trace"], dis, where=f"storeStates={v['store']!r}: ")
    else:
        drv = model["_drv"]
        try:
            if drv.p.poll() is not None or drv.p.stdin.closed:
                drv = core.Driver()
        except Exception:
            drv = core.Driver()
        pre = [["new", 2021] + list(case["nv"])]
        if (case.get("kw") or {}).get("seed_v") is not None:
            pre.append(["setSeedV", case["kw"]["seed_v"]])     # constructor argument = attribute before the build
        pre.append(["build"])
        r0 = drv.call({"op": "c04_chunks", "sigmaPos": _sigma_pos(case), "pre": pre})["pre"]
        if impl["init_evs"] != [e for evs in r0["evs"] for e in evs]:
            dis.append(f"TIE: [diagnostic, not a verdict] Snowfall.__init__: events impl {impl['init_evs']} vs model {r0['evs']}")
        allruns = []
        for p in impl["passes"]:
            if p["keys"] != list(range(case["nrep"])):
                dis.append(f"{p['how']}: stats keys {p['keys']} != 0..Nrep-1")
            if p["how"] != "sequential" and p["chunks"] != model["poolChunks"]:
                # CPython's batching is not part of the property (the theorems hold for every chunking)
                dis.append(f"TIE: [diagnostic, not a verdict] {p['how']}: observed chunking {p['chunks']} vs modelled Pool "
                           f"batches {model['poolChunks']}")
            if p["how"] == "sequential" and not p["same_object"]:
                dis.append("sequential: tasks did not run on one object")
            r = drv.call({"op": "c04_chunks", "sigmaPos": _sigma_pos(case), "pre": pre,
                          "chunks": [_chunk_ops(ch) for ch in p["chunks"]]})
            by_seed = {t["seed"]: t for t in p["tasks"]}
            for ch, tr in zip(p["chunks"], r["chunks"]):
                for j, i in enumerate(ch):
                    t = by_seed[i]
                    mev = tr["evs"][2 * j] + tr["evs"][2 * j + 1]
                    if t["evs"] != mev:
                        dis.append(f"TIE: [diagnostic, not a verdict] {p['how']} task {i} (chunk {ch}): events impl "
                                   f"{t['evs']} vs model {mev}")
                    if t["sched"] != tr["scheds"][j]:
                        dis.append(f"{p['how']} task {i} (chunk {ch}): schedule impl {t['sched']} vs model {tr['scheds'][j]}")
                        break
                    if t["digest"] != t["digest_parent"]:
                        dis.append(f"{p['how']} task {i}: stats changed between worker and parent")
                    allruns.append((t["sched"], t["digest"]))
            if p["how"] == "sequential":
                # the template itself was used: later passes start from its new state
                pre = pre + _chunk_ops(range(case["nrep"]))
        _same_sched_same_stats(allruns, dis)
    return dis


# ---------------------------------------------------------------------------
# the property on the real code
# ---------------------------------------------------------------------------
def predicates(case, impl):
    out = []
    if impl.get("raise"):
        out.append(Failure(clause="total", key=f"raises|{case['kind']}|{impl['raise']}",
                           detail=f"{case['kind']} case raises {impl['raise']}: {impl.get('tb', '')[-300:]}"))
        return out
    var = "variability" if _sigma_pos(case) else "no-variability"
    if case["kind"] == "history":
        for i, o in enumerate(impl["ops"]):
            if o["op"][0] == "run" and o["digest"] != o["fresh"]:
                out.append(Failure(
                    clause="run_schedule_canonical", key=f"history_independent|Snowflake.run|{var}",
                    detail=f"after {[x['op'] for x in impl['ops'][:i]]} (objects built for start temperatures {case.get('starts')}, "
                           f"configuration files {case.get('configs')}, initial temperature given as {case.get('init')}) "
                           f"the run with seed {o['seed']}, seed_v {o['seed_v']}, N_vials "
                           f"{o['sched']['nv']}, configuration {o['cfg']} = {_spec(case, o['cfg'])} differs bit-wise from a fresh "
                           f"Snowflake(seed={o['seed']}, seed_v={o['seed_v']}) of that configuration "
                           f"(schedule used: {o['sched']})"))
                break
    elif case["kind"] == "record":
        var = var + ("|final-step-event" if case.get("final") else "")
        base = impl["variants"][0]
        for v in impl["variants"][1:]:
            for a, b in zip(base["ops"], v["ops"]):
                if a["op"][0] == "run" and a["digest"] != b["digest"]:
                    out.append(Failure(clause="record_independent", key=f"record_independent|Snowflake.run|{var}",
                                       detail=f"stats differ between storeStates={base['store']!r} and {v['store']!r}"))
                    return out
    else:
        for p in impl["passes"]:
            bad = [t["seed"] for t in p["tasks"] if t["digest_parent"] != t["fresh"]]
            if bad:
                out.append(Failure(
                    clause="snowfall_rep_standalone", key=f"rep_standalone|Snowfall.run|{p['how']}|{var}",
                    detail=f"Snowfall(Nrep={case['nrep']}, pool_size={case['pool']}).run(how={p['how']!r}) "
                           f"(passes {case['hows']}, keyword arguments {case.get('kw')}): repetitions {bad} differ bit-wise "
                           f"from Snowflake(seed=i, same keyword arguments).run(); chunks {p['chunks']}"))
        if len(impl["passes"]) > 1:
            a = impl["passes"][0]
            for b in impl["passes"][1:]:
                da = {t["seed"]: t["digest_parent"] for t in a["tasks"]}
                db = {t["seed"]: t["digest_parent"] for t in b["tasks"]}
                if da != db:
                    out.append(Failure(
                        clause="snowfall_mode_independent",
                        key=f"mode_independent|Snowfall.run|{a['how']}-{b['how']}|{var}",
                        detail=f"per-seed stats differ between pass {a['how']} and pass {b['how']} of one Snowfall "
                               f"(Nrep={case['nrep']}, pool_size={case['pool']})"))
    return out


def classify(case, impl):
    tags = [f"kind={case['kind']}", "sigma=" + ("pos" if _sigma_pos(case) else str(case["sigma"]))]
    if case.get("final"):
        tags.append(f"final-step {case['final']['event']} stamp: " + ("yes" if impl.get("final_stamp") else "no"))
    if case["kind"] == "history":
        tags.append(f"len={len(case['ops'])}")
        tags.append(f"runs={sum(1 for o in case['ops'] if o[0] == 'run')}")
        if case.get("random_store"):
            tags.append("random storage selection")
        for t in ("setN", "build", "setSeedV", "readShelf", "readInt", "editCfg"):
            if any(o[0] == t for o in case["ops"]):
                tags.append("has " + t)
        if any(o[0] == "setN" and o[3] > 1 or o[0] == "new" and o[4] > 1 for o in case["ops"]):
            tags.append("pallet shape")
    elif case["kind"] == "fall":
        tags += [f"hows={'+'.join(case['hows'])}", f"pool={case['pool']}", f"nrep={case['nrep']}"]
        tags += [f"kw:{k}" for k in (case.get("kw") or {})]
        if case.get("tmpl_edit"):
            tags.append("template edited after construction: " + "+".join(sorted(case["tmpl_edit"])))
    return tags


def nontrivial(case, impl):
    if impl.get("raise"):
        return False
    if case["kind"] == "history":
        # an all-NaN statistics record (no vial nucleated) compares equal to anything of its kind: such a run does
        # not count; the case is non-trivial only if its LAST run has nucleated vials
        runs = [o for o in impl["ops"] if o["op"][0] == "run"]
        return bool(runs) and runs[-1]["nucleated"] > 0
    if case["kind"] == "record":
        return bool(impl.get("final_stamp", True))
    return any(t["nucleated"] > 0 for p in impl["passes"] for t in p["tasks"])


# ---------------------------------------------------------------------------
# generators
# ---------------------------------------------------------------------------
SHAPES = [[3, 3, 1], [2, 2, 1], [1, 3, 1], [2, 1, 1], [2, 2, 2], [3, 2, 1], [2, 3, 1], [3, 2, 1], [2, 3, 1]]
SEEDS_V = [2024, 2, 7]
SEEDS = [0, 1, 5, 7, 2021]


def _cfg_specs(rng, n=3):
    """alternative COMPLETE configurations of a case (index 0 is the base configuration)"""
    out = [{}]
    for _ in range(n):
        rate = rng.choice([0.1, 0.2, 0.05, 0.25])
        end = rng.choice([-45, -40, -50])
        holding = rng.choice([None, None, [[-10, 100]], [[-5, 50], [-20, 60]], [[-20, 60], [-5, 50]]])
        implied = (5 - end) / rate + sum(h[1] for h in holding or [])
        t_tot = max(rng.choice([1000, 800, 1500]), 100 * (int(implied // 100) + 2))
        out.append(dict(rate=rate, end=end, holding=holding, t_tot=t_tot, dt=rng.choice([5, 5, 2.5, 10]),
                        how=rng.choice(["inplace", "inplace", "new"])))
    return out


def _history(rng, maxlen):
    sigma = rng.choice([0.1, 0.1, 0.1, 0, None, 0.3])
    ops = [["new", rng.choice(SEEDS)] + rng.choice(SHAPES)]
    n = rng.randint(0, maxlen - 2)
    for _ in range(n):
        r = rng.random()
        if r < 0.35:
            ops.append(["setSeed", rng.choice(SEEDS)])
        elif r < 0.55:
            ops.append(["build"])
        elif r < 0.85:
            ops.append(["run"])
        elif r < 0.93:
            ops.append(["setN"] + rng.choice(SHAPES))
            # the lazy properties may be read in either order before the next run
            k = rng.random()
            if k < 0.3:
                ops.append(["readShelf"])
            elif k < 0.5:
                ops += [["readShelf"], ["readInt"]]
            elif k < 0.65:
                ops += [["readInt"], ["readShelf"]]
        elif r < 0.955:
            ops.append(["setSeedV", rng.choice(SEEDS_V)])
        elif r < 0.985:
            ops.append(["editCfg", rng.randrange(4)])
        else:
            ops.append(["new", rng.choice(SEEDS)] + rng.choice(SHAPES))
    if rng.random() < 0.7 and len(ops) < maxlen:
        ops.append(["setSeed", rng.choice(SEEDS)])
    ops.append(["run"])
    return dict(kind="history", sigma=sigma, cfgs=_cfg_specs(rng), starts=rng.choice([None, [5, 2], [8, 5, 0], [3]]),
                ops=ops[-maxlen:] if ops[-maxlen:][0][0] == "new" else ops[:1] + ops[-(maxlen - 1):])


def _targeted(rng):
    """vial-seed changes between runs; shape changes followed by property reads in both orders"""
    sigma = rng.choice([0.1, 0, None])
    s0, s1 = rng.choice(SEEDS), rng.choice(SEEDS)
    a, b = rng.choice([([3, 2, 1], [2, 3, 1]), ([2, 3, 1], [3, 2, 1]), ([3, 3, 1], [2, 2, 1]), ([2, 2, 1], [1, 3, 1])])
    v = rng.choice([2, 7])
    k = rng.randrange(16)
    if k >= 14:
        # a (1,1,1) batch whose initial temperature is a one-element sequence / numpy scalar, run repeatedly
        init = dict(form=rng.choice(["list", "tuple", "array", "npfloat", "intarray"]), value=rng.choice([5, 3, 5.0, 2]))
        nv1 = rng.choice([[1, 1, 1], [1, 1, 1], [2, 1, 1], [2, 2, 1]])
        return dict(kind="history", sigma=sigma, cfgs=_cfg_specs(rng), init=init, xref=True,
                    ops=[["new", s0] + nv1, ["run"], ["run"]] if k == 14 else
                        [["new", s0] + nv1, ["run"], ["setSeed", s1], ["run"], ["setSeed", s0], ["run"]])
    if k >= 12:
        # an object built from a CUSTOM YAML overriding one nested key, then objects with the packaged defaults /
        # with a custom file that does not touch that key
        over = rng.choice([{"solution.solid_fraction": 0.1}, {"water.cp_w": 4000}, {"kinetics.b": 30.0}])
        other = rng.choice([None, None, {"water.cp_w": 4100} if "water.cp_w" not in over else {"kinetics.b": 29.0}])
        return dict(kind="history", sigma=sigma, cfgs=_cfg_specs(rng), configs=[over, other], xref=True,
                    ops=[["new", s0] + a, ["run"], ["new", s1] + a, ["run"]] if k == 12 else
                        [["new", s0] + a, ["new", s1] + b, ["run"], ["new", s0] + a, ["setSeed", s1], ["run"]])
    if k >= 10:
        # two objects constructed one after the other in this process, for different start temperatures
        T1, T2 = rng.sample([8, 5, 2, 0, -2], 2)
        return dict(kind="history", sigma=sigma, cfgs=_cfg_specs(rng), starts=[T1, T2], xref=True,
                    ops=[["new", s0] + a, ["run"], ["new", s1] + b, ["run"]] if k == 10 else
                        [["new", s0] + a, ["new", s1] + b, ["setSeed", s0], ["run"]])
    if k >= 6:
        # the attached configuration is edited (in place / replaced) between runs
        ops = [[["new", s0] + a, ["run"], ["editCfg", 1], ["run"]],
               [["new", s0] + a, ["run"], ["editCfg", 1], ["setSeed", s1], ["run"]],
               [["new", s0] + a, ["editCfg", 2], ["run"], ["editCfg", 0], ["run"]],
               [["new", s0] + a, ["run"], ["editCfg", 1], ["run"], ["editCfg", 3], ["build"], ["run"]]][k - 6]
    elif k == 0:
        ops = [["new", s0] + a, ["run"], ["setSeedV", v], ["run"]]
    elif k == 1:
        ops = [["new", s0] + a, ["setSeedV", v], ["run"], ["setSeedV", 2024], ["setSeed", s1], ["run"]]
    elif k == 2:
        ops = [["new", s0] + a, ["build"], ["setN"] + b, ["readShelf"], ["run"]]
    elif k == 3:
        ops = [["new", s0] + a, ["run"], ["setN"] + b, ["readShelf"], ["readInt"], ["run"]]
    elif k == 4:
        ops = [["new", s0] + a, ["build"], ["setN"] + b, ["readInt"], ["readShelf"], ["setSeed", s1], ["run"]]
    else:
        ops = [["new", s0] + a, ["run"], ["setN"] + b, ["setSeedV", v], ["readShelf"], ["setSeed", s1], ["run"]]
    return dict(kind="history", sigma=sigma, ops=ops, cfgs=_cfg_specs(rng))


KW_VARIANTS = [
    {"seed_v": 7}, {"seed_v": 7, "dt": 2.5}, {"dt": 10}, {"initIce": "direct"}, {"solidificationThreshold": 0.5},
    {"k_mod": {"int": 5, "ext": 40}}, {"configPath": "water:\n  cp_w: 4000\n"}, {"seed_v": 3, "initIce": "direct"},
    {"seed": 99}, {"storeStates": None},
]


def _random_store(rng):
    nv = rng.choice([[3, 3, 1], [2, 3, 1], [2, 2, 1]])
    ops = [["new", rng.choice(SEEDS)] + nv]
    for _ in range(rng.randint(0, 3)):
        ops.append(rng.choice([["setSeed", rng.choice(SEEDS)], ["build"], ["run"], ["readShelf"], ["setSeedV", 7]]))
    if rng.random() < 0.6:
        ops.append(["setSeed", rng.choice(SEEDS)])
    ops.append(["run"])
    return dict(kind="history", sigma=rng.choice([0.1, 0, None]), ops=ops, random_store=rng.choice([1, 2, 3]))


def _record(rng):
    sigma = rng.choice([0.1, 0, 0.2])
    nv = rng.choice([[3, 3, 1], [2, 2, 1], [2, 3, 1]])
    ops = [["new", rng.choice(SEEDS)] + nv]
    for _ in range(rng.randint(0, 3)):
        ops.append(rng.choice([["setSeed", rng.choice(SEEDS)], ["build"], ["run"]]))
    ops.append(["run"])
    stores = [None, "all", "corner", [0, 2], "uniform_2", ["edge", "core"]]
    return dict(kind="record", sigma=sigma, ops=ops, stores=[None] + rng.sample(stores[1:], 3))


def _record_final(rng):
    """recording vs not recording when an event is stamped in the very last time step"""
    nv = rng.choice([[3, 3, 1], [2, 2, 1], [2, 3, 1]])
    N = nv[0] * nv[1]
    stores = [None, "all", [rng.randrange(N)], "corner", "uniform_2", [0, N - 1]]
    return dict(kind="record", sigma=rng.choice([0.1, 0, 0.2]), ops=[["new", rng.choice(SEEDS + [3, 11])] + nv, ["run"]],
                stores=[None, "all"] + rng.sample(stores[2:], 2),
                final=dict(event=rng.choice(["nuc", "sol"]), rank=rng.randrange(N)))


def cases(rng, tier):
    quick = tier == "quick"
    maxlen = 6 if quick else 9
    for _ in range(40 if quick else 400):
        yield _record_final(rng)
    for _ in range(60 if quick else 600):
        yield _targeted(rng)
    for _ in range(40 if quick else 400):
        yield _random_store(rng)
    for _ in range(1200 if quick else 12000):
        yield _history(rng, maxlen)
    for _ in range(60 if quick else 400):
        yield _record(rng)
    pools = [1, 2, 3, 5] if quick else [1, 2, 3, 5, 16]
    nreps = [1, 2, 5, 9] if quick else [1, 2, 5, 9, 33]
    for sigma in (0.1, 0):
        for pool in pools:
            for nrep in nreps:
                for how in ("sequential", "async", "sync"):
                    if sigma == 0 and quick and (pool, nrep) not in ((2, 5), (3, 9)):
                        continue
                    yield dict(kind="fall", sigma=sigma, nv=[3, 3, 1], nrep=nrep, pool=pool, hows=[how])
    # keyword arguments handed through to the template: repetition i = Snowflake(seed=i, same keyword arguments)
    for kw in KW_VARIANTS:
        for how in ("sequential", "async", "sync"):
            if quick and how == "sync" and "seed_v" not in kw:
                continue
            yield dict(kind="fall", sigma=rng.choice([0.1, 0]), nv=rng.choice([[3, 3, 1], [2, 2, 1], [2, 3, 1]]), nrep=3,
                       pool=2, hows=[how], kw=kw, start=rng.choice([None, 8, 2]), decoy_start=rng.choice([None, 0, 6]),
                       xref=(how == "sequential"))
    # Snowfall on a (1,1,1) batch with a one-element initial temperature; Snowfall after an object with a custom YAML
    for how in ("sequential", "async", "sync"):
        yield dict(kind="fall", sigma=0, nv=[1, 1, 1], nrep=3, pool=2, hows=[how],
                   init=dict(form=rng.choice(["list", "array", "tuple"]), value=5))
        yield dict(kind="fall", sigma=rng.choice([0.1, 0]), nv=[2, 2, 1], nrep=2, pool=2, hows=[how],
                   decoy_yaml={"solution.solid_fraction": 0.12}, yaml=rng.choice([None, {"water.cp_w": 4050}]), xref=True)
    yield dict(kind="fall", sigma=0, nv=[1, 1, 1], nrep=3, pool=2, hows=["sequential", "async"],
               init=dict(form="list", value=5))
    # the template is edited after construction, then the study is run in all three modes on that Snowfall
    for te in ({"k": {"int": 0}}, {"k": {"ext": 60}}, {"cfg": 1}, {"cfg": 2, "k": {"int": 5}}, {"cfg": 3}):
        for hows in (["sequential", "async", "sync"], ["sync", "sequential", "async"]):
            yield dict(kind="fall", sigma=rng.choice([0.1, 0]), nv=rng.choice([[3, 3, 1], [2, 3, 1]]), nrep=3, pool=2,
                       hows=hows, tmpl_edit=te, cfgs=_cfg_specs(rng))
    # one Snowfall object run several times (sequential mutates the template)
    for hows in (["sequential", "sequential"], ["sequential", "async"], ["async", "sequential", "sync"]):
        for sigma in (0.1, 0):
            yield dict(kind="fall", sigma=sigma, nv=[2, 2, 1], nrep=3, pool=2, hows=hows)
    if not quick:
        # template-seed collision: repetition 2021 meets the template's own seed
        yield dict(kind="fall", sigma=0.1, nv=[2, 1, 1], nrep=2030, pool=16, hows=["sequential"])
        yield dict(kind="fall", sigma=0.1, nv=[2, 1, 1], nrep=2030, pool=16, hows=["async"])


def widen(rng, tier):
    for _ in range(300 if tier == "quick" else 3000):
        yield _history(rng, 9)
