"""C01 Every vial step obeys the shelf-scale heat and phase balance."""
from __future__ import annotations

import json
import math

import shim  # noqa: F401
import numpy as np

import core
import flakeutil as fu
from core import Failure, close

ID = "C01"
TITLE = "Every vial step obeys the shelf-scale heat and phase balance"
LEAN_MODULE = "SnowProofs.Props.C01"
THEOREMS = [
    dict(name="Snow.C01.q_refines", clause="the code's H_int·T + H_ext∘(T_ext−T) + H_shelf∘(T_sh−T) is the sum over "
         "neighbours, surroundings and shelf of conductance × temperature difference", strength="full"),
    dict(name="Snow.C01.heat_cancels", clause="heat exchanged between vials sums to zero over the batch "
         "(symmetric neighbour relation)", strength="full"),
    dict(name="Snow.C01.q_refines_shape", clause="for every declared shape and both arrangements (no hypothesis on the "
         "neighbour structure): net heat flow = sum over the GEOMETRIC neighbours of k_int·A·(T_j−T_i) + "
         "(maxNbr − #neighbours) faces to the surroundings + shelf", strength="full"),
    dict(name="Snow.C01.heat_cancels_shape", clause="for every declared shape and both arrangements the heat exchanged "
         "between vials sums to zero over the batch (no hypothesis)", strength="full"),
    dict(name="Snow.C01.vial_trichotomy", clause="a vial transition is exactly one of: sensible cooling, nucleation "
         "jump of a supercooled liquid vial to the selected formulation, equilibrium solidification; which one is "
         "decided by sigma = 0 and the nucleation decision (any q, kb, dice, CN flag) — ONE step; side hypothesis hs: a vial "
         "containing ice has sigma != 1 and a non-vanishing eq.-5 bracket (true for 0 <= sigma < 1, "
         "vial_trichotomy_admissible)", strength="conditional-on-sigma-in-[0,1)"),
    dict(name="Snow.C01.step_trichotomy", clause="every vial of every step: the new vial value is that transition, "
         "driven by the net heat flow computed from the old state — ONE step of the batch, same side hypothesis hs",
         strength="conditional-on-sigma-in-[0,1)"),
    dict(name="Snow.C01.run_trichotomy_partial", clause="RUN level: for every column j and vial i of runWith inp kCN "
         "(run inp) the next column is the step function of column j and the vial's transition is one of the three; hs "
         "is discharged by C06's admissibility invariant, hence conditional on the monitored side condition of "
         "C06.run_admissible_partial (well-formed program, Stable range)", strength="partial"),
    dict(name="Snow.C01.run_transition_of_range", clause="RUN level, no stability range and no side condition: for physically "
         "valid parameters (ph.Valid), constants c = ph.consts and dt != 0, a recorded transition of a vial whose ice "
         "fraction is in [0,1) is one of the three; the next column (or, after the last column, the final state) is the "
         "step function of the column. (C06's run theorems supply sigma in [0,1) unconditionally up to the first column "
         "with ice, for uncoupled vials and for processes starting at or below the liquidus; the compositions for the last two are "
         "run_trichotomy_uncoupled and run_trichotomy_below_liquidus.)", strength="full"),
    dict(name="Snow.C01.run_trichotomy_below_liquidus", clause="RUN level, NOTHING monitored: for a process that starts at or "
         "below the liquidus (T_k_0 <= T_eq_l, shelf start <= T_eq_l) inside the stability range and under the static "
         "inequality StaticSide, every recorded transition of every vial in every column is one of the three and the next "
         "column is the step function (run_transition_of_range + C06.run_bounds_below_liquidus; no per-step side condition)",
         strength="full"),
    dict(name="Snow.C01.run_trichotomy_until_first_nucleation", clause="RUN level, NOTHING monitored, any coupling and any "
         "start temperature in the stability range: if the columns before J are ice-free (J = first column with ice), the "
         "transition of every vial out of every column j <= J is one of the three - in particular the nucleation jumps "
         "creating the first ice and the first solidification step after them (run_transition_of_range + "
         "C06.run_admissible_until_first_nucleation)", strength="full"),
    dict(name="Snow.C01.run_trichotomy_uncoupled", clause="RUN level, NOTHING monitored: for thermally uncoupled vials "
         "(k_int*A = 0), any start temperature inside the stability range, every recorded transition of every vial in every "
         "column is one of the three (run_transition_of_range + C06.run_bounds_uncoupled; no per-step side condition)",
         strength="full"),
    dict(name="Snow.C01.run_uses_shape", clause="a run whose parameters are built by Params.withShape (what the driver "
         "does for the configured arrangement and shape) uses, in every step and for every vial, the geometric heat "
         "flow of q_refines_shape, and its inter-vial heat cancels (heat_cancels_shape)", strength="full"),
    dict(name="Snow.C01.indirect_is_eq9", clause="indirect formulation = eq. 9 of development.rst", strength="full"),
    dict(name="Snow.C01.direct_solves_eq12", clause="direct formulation solves eq. 12, lies in (0,1) when T < T_eq_l, "
         "and is the only root there", strength="full"),
    dict(name="Snow.C01.solid_is_eq5", clause="solidifying step = explicit Euler step of eq. 5, temperature on the "
         "freezing-point-depression curve (eq. 2)", strength="full"),
    dict(name="Snow.C01.liquid_is_sensible", clause="liquid step: m·c_p·ΔT = q·dt", strength="full"),
    dict(name="Snow.C01.derived_constants_used", clause="hl, alpha, beta_solution, T_eq_l, depression, mass as used by "
         "the step are the documented combinations of the primary constants", strength="full"),
    dict(name="Snow.C01.run_steps", clause="every column of a run is the step function applied to the previous column "
         "with the shelf temperature of that step", strength="full"),
    dict(name="Snow.C01.initIce_case_insensitive", clause="the selected initial-ice formulation depends on the "
         "lower-cased string only", strength="full"),
    dict(name="Snow.C01.nonvacuous_run", clause="run_trichotomy_partial applied to the concrete run with ice of "
         "C06.nonvacuous_run (the solidifying transition column 1 -> 2)", strength="nonvacuity"),
    dict(name="Snow.C01.nonvacuous_below_liquidus", clause="run_trichotomy_below_liquidus applied to the same concrete run "
         "(start -3 <= T_eq_l = -1, StaticSide from C06.x_staticSide): hypotheses satisfiable, conclusion = the solidifying "
         "transition column 1 -> 2 and the step-function link", strength="nonvacuity"),
    dict(name="Snow.C01.nonvacuous_uncoupled", clause="run_trichotomy_uncoupled applied to the same concrete run (one vial, "
         "k_int = 0): hypotheses satisfiable, conclusion = the solidifying transition column 1 -> 2, no side condition "
         "supplied", strength="nonvacuity"),
    dict(name="Snow.C01.nonvacuous", clause="hypotheses are satisfiable (default 5 wt.% sucrose constants)",
         strength="nonvacuity"),
]
TRUSTED = [
    "Lean 4.33 kernel; axioms per theorem listed under coverage.axioms",
    "theorems are over the reals: IEEE rounding is not modelled",
    "hand-written model SnowModel/Flake.lean tied to Snowflake.run by this differential check "
    "(every vial and step of real runs, rtol 1e-9, nucleation steps exactly)",
    "the interaction structure is COMPUTED by the model from the declared arrangement and shape (SnowModel/FlakeGeom.lean "
    "on top of the C09 topology model) and compared with the real object's interaction matrix, H_int and H_ext as used",
    "numpy's generators: their output is input to the model (recorded by a proxy assigned to S._rng)",
    "the derived constants are sent as numbers; their formulas are theorem derived_constants_used + C19",
]
ASSUMPTIONS = [
    "valid configurations: 0 < solid_fraction < 1, positive heat capacities, dt > 0",
    "time steps inside the explicit scheme's stability range (dt·Hsum <= 0.9·m·c_p), otherwise rounding is amplified "
    "beyond the comparison tolerance",
    "continuous comparisons use rtol 1e-9 (abs 1e-9 below 1); a decision whose float margin is < 1e-9 is a TIE",
]
RULE = ("real Snowflake runs (storeStates='all') over shapes incl. pallets, both arrangements, coefficient sets with and "
        "without s_sigma_rel, dt, programs with holds, T_k_0 != start, partial YAMLs changing solution/kinetic/geometry "
        "constants, both initIce, seeds, some with controlled nucleation; every (vial, step) is compared with the Lean "
        "model and checked against an independent statement of the published equations; a case is non-trivial when at "
        "least one vial nucleates")
EXPLANATION = ("Lean theorems over the reals about SnowModel/Flake.lean + differential check of the model against "
               "Snowflake.run on whole trajectories")
PARALLEL = True

# --- regeneration tie (harness/gentie.py): the formulas of the hand model SnowModel/Flake.lean are re-derived
# from /repo's source on every run and proved equal to the generated text (lean/SnowProofs/Props/GenTie/)
import gentie  # noqa: E402
THEOREMS = THEOREMS + gentie.theorems("Flake")
extra_lean_targets = list(globals().get("extra_lean_targets", [])) + [gentie.module("Flake")]
TRUSTED = TRUSTED + ["harness/translate.py formula extraction (single assignments of the run loop -> Lean definitions; "
                     "anything outside its tiny language is a TranslatorError)"]


def regenerate():
    gentie.regenerate("Flake")


_STASH = {}
_TOTALS = {"liquid": 0, "nucleation": 0, "solidifying": 0, "runs": 0}


def _key(case):
    return json.dumps(case, sort_keys=True, default=str)


def _stash(case, impl):
    _STASH.clear()
    _STASH[_key(case)] = impl


# ---------------------------------------------------------------------------
def run_impl(case):
    try:
        return fu.run_real(case)
    except fu.ObservationError:
        raise          # the harness cannot observe the object: infrastructure error, not a verdict
    except Exception as e:
        return {"raise": core.exc_class(e), "msg": str(e)[:200]}


def run_model(drv, case, impl=None):
    if impl is None:
        impl = _STASH.get(_key(case))
    if impl is None:
        impl = run_impl(case)
    if impl.get("raise"):
        return {"raise": impl["raise"], "skipped": True}
    out = fu.run_model(drv, case, impl)
    out["consts"] = fu.derive_model(drv, case.get("config"))
    return out


def compare(case, impl, model):
    if impl.get("raise"):
        return []  # construction/run errors of the real code are reported by `predicates`
    dis = []
    for k, v in impl["consts"].items():
        w = model["consts"][k]
        if abs(v - w) > 1e-9 * max(abs(v), abs(w)):
            dis.append(f"derived constant {k}: impl {v!r} vs model {w!r}")
    return dis + fu.compare_run(case, impl, model)


# ---------------------------------------------------------------------------
# geometric oracle (square arrangement): neighbours differ by one in exactly one coordinate
# ---------------------------------------------------------------------------
def square_nbrs(shape):
    nx, ny, nz = shape
    out = []
    for z in range(nz):
        for y in range(ny):
            for x in range(nx):
                row = []
                for dx, dy, dz in ((1, 0, 0), (-1, 0, 0), (0, 1, 0), (0, -1, 0), (0, 0, 1), (0, 0, -1)):
                    a, b, c = x + dx, y + dy, z + dz
                    if 0 <= a < nx and 0 <= b < ny and 0 <= c < nz:
                        row.append(a + nx * b + nx * ny * c)
                out.append(sorted(row))
    return out


def hex_nbrs(shape):
    """hexagonal packing: rows are offset alternately by half a pitch (odd rows to +x); in a layer a
    vial touches the two vials one pitch away in its row and the vials half a pitch away in the
    adjacent rows; plus the vial directly above/below"""
    nx, ny, nz = shape

    def pos(x, y):
        return 2 * x + (y % 2)

    cs = [(x, y, z) for z in range(nz) for y in range(ny) for x in range(nx)]
    out = []
    for (x, y, z) in cs:
        row = []
        for j, (a, b, c) in enumerate(cs):
            same_layer = c == z and ((b == y and abs(pos(a, b) - pos(x, y)) == 2)
                                     or (abs(b - y) == 1 and abs(pos(a, b) - pos(x, y)) == 1))
            vertical = a == x and b == y and abs(c - z) == 1
            if same_layer or vertical:
                row.append(j)
        out.append(row)
    return out


def transitions(impl):
    Xs = np.asarray(impl["Xsigma"])
    liq0 = Xs[:-1] == 0
    liq1 = Xs[1:] == 0
    return liq0 & liq1, liq0 & ~liq1, ~liq0


def predicates(case, impl):
    _stash(case, impl)
    out = []
    nx, ny, nz = case["N_vials"]
    arr = (case.get("config") or {}).get("snowfall_parameters", {}).get("vial_arrangement", "square")
    init_ice = case.get("initIce", "indirect").lower()   # the formulation the user selected
    cls = f"{arr},{'pallet' if nz > 1 else 'shelf'},{init_ice}"
    site = "Snowflake.run"

    def fail(clause, detail):
        out.append(Failure(clause=clause, key=f"{clause}|{site}|{cls}", detail=detail))

    if impl.get("raise"):
        fail("total", f"valid configuration raises {impl['raise']}: {impl.get('msg')}")
        return out
    for clause, detail in fu.stateless_failures(case, impl):
        fail(clause, detail)
    if impl.get("stored_idx") is not None:
        for clause, detail in fu.subset_failures(case, impl):
            fail(clause, detail)
        return out
    if out:
        return out
    ph = fu.physical(case.get("config"))
    n, N, dt = impl["n"], impl["N"], impl["dt"]
    XT = np.asarray(impl["XT"])
    Xs = np.asarray(impl["Xsigma"])
    Tsh = np.asarray(impl["Tshelf"])
    if XT.shape != (N, n) or Xs.shape != (N, n) or len(Tsh) != N:
        fail("shape", f"state matrix {XT.shape}, profile {len(Tsh)}, expected ({N},{n})")
        return out
    if N < 2:
        return out
    # --- geometry -----------------------------------------------------------
    nbrs = impl["nbrs"]
    geo = square_nbrs(case["N_vials"]) if arr == "square" else hex_nbrs(case["N_vials"])
    if [sorted(r) for r in nbrs] != geo:
        bad = next(i for i in range(n) if sorted(nbrs[i]) != geo[i])
        fail("geometric_neighbours", f"vial {bad}: code {sorted(nbrs[bad])} vs geometry {geo[bad]}")
        return out
    maxint = (4 if arr == "square" else 6) + (2 if nz > 1 else 0)
    W = np.zeros((n, n))
    for i, r in enumerate(nbrs):
        for j in r:
            W[i, j] += 1
    if not np.array_equal(W, W.T):
        fail("symmetric_neighbours", "the neighbour relation of the code is not symmetric")
    deg = W.sum(axis=1)
    ext = maxint - deg
    if [int(x) for x in ext] != impl["ext"]:
        fail("external_faces", f"external face counts {impl['ext']} vs {maxint} - degree")
    Hext = np.asarray(impl["Hext"])
    wantH = ext * impl["kExt"] * A_ext(impl)
    if np.any(np.abs(Hext - wantH) > 1e-9 * np.maximum(np.abs(Hext), np.abs(wantH))):
        i = int(np.argmax(np.abs(Hext - wantH)))
        fail("external_faces", f"H_ext[{i}] used {Hext[i]!r} vs (max - neighbours)*k_ext*A {wantH[i]!r}")
        return out
    # shelf coefficient: s0 (+ relative variability) on a shelf, none in a pallet
    ksh = fu.spec_kshelf(case, impl)      # implied by the configured coefficients + recorded normals
    msg = fu.check_kshelf(case, impl)
    if msg:
        fail("shelf_coefficient", msg)
        return out
    # --- heat flows from the OLD state of every step -----------------------------
    A = ph["A"]
    T0s = XT[:-1]
    qint = impl["kInt"] * A * (T0s @ W.T - T0s * deg)
    qext = ext * impl["kExt"] * A * (Tsh[:-1, None] - T0s)
    qsh = ksh * A * (Tsh[:-1, None] - T0s)
    q = qint + qext + qsh
    scale = impl["kInt"] * A * (np.abs(T0s) @ W.T + np.abs(T0s) * deg).sum(axis=1)
    tot = qint.sum(axis=1)
    badk = np.where(np.abs(tot) > 1e-9 * np.maximum(scale, 1e-300))[0]
    if len(badk):
        k = int(badk[0])
        fail("heat_cancels", f"step {k}: inter-vial heat sums to {tot[k]!r} (scale {scale[k]!r})")

    def rel(a, b):
        return np.abs(a - b) <= 1e-9 * np.maximum(1.0, np.maximum(np.abs(a), np.abs(b)))

    mL, mN, mS = transitions(impl)
    S0, S1, T1 = Xs[:-1], Xs[1:], XT[1:]
    # --- liquid: m c_p dT = q dt ---------------------------------------------------
    Tl = fu.spec_liquid(ph, T0s, q, dt)
    bad = mL & ~rel(T1, Tl)
    if bad.any():
        k, i = map(int, np.argwhere(bad)[0])
        fail("liquid_step", f"vial {i} step {k}: T {T1[k, i]!r} vs sensible cooling {Tl[k, i]!r}")
    # --- nucleation jump ---------------------------------------------------------------
    if mN.any():
        ks, is_ = np.where(mN)
        Tn = Tl[ks, is_]
        s1 = S1[ks, is_]
        if np.any(~(Tn < ph["T_eq_l"])):
            j = int(np.where(~(Tn < ph["T_eq_l"]))[0][0])
            fail("jump_supercooled", f"vial {is_[j]} nucleates at step {ks[j]} at {Tn[j]} >= T_eq_l {ph['T_eq_l']}")
        tn = np.asarray(impl["TNuc"])[is_]
        if np.any(~rel(tn, Tn)):
            j = int(np.where(~rel(tn, Tn))[0][0])
            fail("jump_Tnuc", f"vial {is_[j]}: T_nucleation {tn[j]!r} vs liquid temperature {Tn[j]!r}")
        tt = np.asarray(impl["tNuc"])[is_]
        if np.any(~rel(tt, (ks + 1) * dt)):
            j = int(np.where(~rel(tt, (ks + 1) * dt))[0][0])
            fail("jump_time", f"vial {is_[j]}: t_nucleation {tt[j]!r} vs {(ks[j] + 1) * dt!r}")
        if init_ice == "indirect":
            sp = fu.spec_indirect(ph, Tn)
            if np.any(~rel(s1, sp)):
                j = int(np.where(~rel(s1, sp))[0][0])
                fail("jump_indirect", f"vial {is_[j]} step {ks[j]}: sigma {s1[j]!r} vs eq. 9 {sp[j]!r}")
        else:
            res = fu.spec_direct_residual(ph, s1, Tn)
            g = (1 - ph["w_s"]) * ph["lam"] / ph["cp_l"]
            sc = g + np.abs(ph["T_m"] - Tn) + ph["D"]
            badj = (np.abs(res) > 1e-9 * sc) | ~((s1 > 0) & (s1 < 1))
            if np.any(badj):
                j = int(np.where(badj)[0][0])
                fail("jump_direct", f"vial {is_[j]} step {ks[j]}: sigma {s1[j]!r}, eq. 12 residual {res[j]!r}")
        tc = fu.spec_curve(ph, s1)
        if np.any(~rel(T1[ks, is_], tc)):
            j = int(np.where(~rel(T1[ks, is_], tc))[0][0])
            fail("jump_on_curve", f"vial {is_[j]} step {ks[j]}: T {T1[ks[j], is_[j]]!r} vs curve {tc[j]!r}")
    # --- solidification: eq. 5 (explicit Euler), eq. 2 -----------------------------------
    if mS.any():
        ks, is_ = np.where(mS)
        s0, s1, qq = S0[ks, is_], S1[ks, is_], q[ks, is_]
        cp = ph["w_s"] * ph["cp_s"] + (1 - ph["w_s"]) * (ph["cp_w"] + s0 * (ph["cp_i"] - ph["cp_w"]))
        sp = s0 + (-qq / ph["m"]) * dt / (cp * ph["D"] / (1 - s0) ** 2 + ph["lam"] * (1 - ph["w_s"]))
        if np.any(~rel(s1, sp)):
            j = int(np.where(~rel(s1, sp))[0][0])
            fail("solid_step", f"vial {is_[j]} step {ks[j]}: sigma {s1[j]!r} vs eq. 5 {sp[j]!r}")
        tc = fu.spec_curve(ph, s1)
        if np.any(~rel(T1[ks, is_], tc)):
            j = int(np.where(~rel(T1[ks, is_], tc))[0][0])
            fail("solid_on_curve", f"vial {is_[j]} step {ks[j]}: T {T1[ks[j], is_[j]]!r} vs curve {tc[j]!r}")
    # --- initial column ---------------------------------------------------------------
    T0 = case["T0"] if case.get("T0") is not None else case["opcond"]["start"]
    if np.any(XT[0] != T0) or np.any(Xs[0] != 0):
        fail("initial_state", f"column 0 is not T_k_0={T0}, sigma=0")
    return out


def A_ext(impl):
    return impl["A"]


def classify(case, impl):
    _stash(case, impl)
    nx, ny, nz = case["N_vials"]
    cfg = case.get("config") or {}
    tags = [
        f"kind={case.get('kind')}",
        "k_int " + type(case["k"]["int"]).__name__ + ("/" + case["k_types"]["int"] if case.get("k_types") else ""),
        *([f"history changes {case['history']} ({case['pre'].get('how')})"] if case.get("history") else []),
        *([f"tiny supercooling eps={case['eps']}"] if case.get("eps") else []),
        "arrangement=" + cfg.get("snowfall_parameters", {}).get("vial_arrangement", "square"),
        "pallet" if nz > 1 else "shelf",
        f"initIce={case.get('initIce', 'indirect').lower()}",
        "initIce mixed case" if case.get("initIce", "indirect") != case.get("initIce", "indirect").lower() else "initIce lower case",
        ("s_sigma_rel>=0.5" if case["k"].get("s_sigma_rel", 0) >= 0.5 else "s_sigma_rel>0") if case["k"].get("s_sigma_rel") else "s_sigma_rel=0",
        "holds" if case["opcond"].get("holds") else "no holds",
        *(["seed_v falsy/bool (0, True)"] if (case.get("seed_v") == 0 or case.get("seed_v") is True) else []),
        *(["seed falsy/bool (0, True)"] if (case.get("seed") == 0 or case.get("seed") is True) else []),
        "T0!=start" if case.get("T0") is not None else "T0=start",
        "partial yaml" if [k for k in cfg if k != "snowfall_parameters"] else "default constants",
    ]
    if case["opcond"].get("cnTemp") is not None:
        tags.append("controlled nucleation")
    if impl.get("raise"):
        tags.append(f"raise={impl['raise']}")
        return tags
    if impl.get("stored_idx") is not None:
        return tags + [f"recorded subset of {len(impl['stored_idx'])} vials (unsorted int list)"]
    mL, mN, mS = transitions(impl)
    _TOTALS["liquid"] += int(mL.sum())
    _TOTALS["nucleation"] += int(mN.sum())
    _TOTALS["solidifying"] += int(mS.sum())
    _TOTALS["runs"] += 1
    if case["N_vials"][2] == 1 and np.any(fu.spec_kshelf(case, impl) == 0):
        tags.append("some shelf coefficient clamped to 0")
    nn = int(mN.sum())
    tags.append("nucleations=0" if nn == 0 else "nucleations<10" if nn < 10 else "nucleations>=10")
    tags.append("some vial solidified" if any(not math.isnan(x) for x in impl["tSol"]) else "none solidified")
    global EXPLANATION
    EXPLANATION = (EXPLANATION.split(" || ")[0] + " || transitions compared and checked in this run: "
                   + json.dumps(_TOTALS))
    return tags


def nontrivial(case, impl):
    return not impl.get("raise") and any(not math.isnan(x) for x in impl["tNuc"])


# ---------------------------------------------------------------------------
# generators
# ---------------------------------------------------------------------------
def _config(rng, arrangement):
    cfg = {}
    if arrangement == "hexagonal":
        cfg["snowfall_parameters"] = {"vial_arrangement": "hexagonal"}
    if rng.random() < 0.5:
        sol = {}
        if rng.random() < 0.6:
            sol["solid_fraction"] = rng.choice([0.01, 0.05, 0.1, 0.2, 0.3, round(rng.uniform(0.01, 0.3), 3)])
        if rng.random() < 0.3:
            sol["cp_s"] = rng.choice([1000, 1240, 1500.5])
        if rng.random() < 0.3:
            sol["k_f"] = rng.choice([1.853, 1.5, 2.2])
        if rng.random() < 0.3:
            sol["M_s"] = rng.choice([0.3423, 0.18, 0.0584])
        if rng.random() < 0.2:
            sol["T_eq"] = rng.choice([0, -0.5, 0.01])
        if rng.random() < 0.2:
            sol["rho_l"] = rng.choice([1000, 1050, 998.2])
        if sol:
            cfg["solution"] = sol
        if rng.random() < 0.3:
            cfg["water"] = rng.choice([{"cp_w": 4200}, {"cp_i": 2000, "cp_w": 4187}, {"Dh": 330000}])
        if rng.random() < 0.6:
            cfg["kinetics"] = rng.choice([
                {"a": 12.0, "b": 12.0, "c": 0.5}, {"a": 8, "b": 6.5, "c": 1.0}, {"a": 29.0, "b": 29.3, "c": 0.0},
                {"a": 20.5, "b": 18.0, "c": 2.0}, {"b": 28.0}, {"c": 0.3}, {"a": 5.0, "b": 2.0, "c": 0.2}])
        if rng.random() < 0.3:
            cfg["vial"] = {"geometry": rng.choice([{"height": 0.02}, {"length": 0.012, "width": 0.012},
                                                   {"length": 0.01, "width": 0.02, "height": 0.008}])}
    return cfg or None


def stability(case, ph=None):
    """dt·Hsum/(m c_p,min) for the best-connected vial (upper estimate)"""
    ph = ph or fu.physical(case.get("config"))
    nx, ny, nz = case["N_vials"]
    arr = (case.get("config") or {}).get("snowfall_parameters", {}).get("vial_arrangement", "square")
    maxint = (4 if arr == "square" else 6) + (2 if nz > 1 else 0)
    k = case["k"]
    ks = 0 if nz > 1 else k["s0"] * (1 + 4 * k.get("s_sigma_rel", 0))
    H = (maxint * max(k["int"], k["ext"]) + ks) * ph["A"]
    cpmin = min(ph["cp_l"], ph["w_s"] * ph["cp_s"] + (1 - ph["w_s"]) * ph["cp_i"])
    return case["dt"] * H / (ph["m"] * cpmin)


def _seed(rng):
    """seeds include the falsy / bool-like values 0, 1, True (a seed is a number, never a switch)"""
    r = rng.random()
    if r < 0.12:
        return 0
    if r < 0.18:
        return 1
    if r < 0.22:
        return True
    return rng.randint(0, 10**6)


def _structured(rng, tier):
    arrangement = rng.choice(["square", "square", "hexagonal"])
    pallet = rng.random() < 0.3
    big = 64 if tier == "quick" else 100
    while True:
        if pallet:
            shape = [rng.randint(1, 5), rng.randint(1, 5), rng.randint(2, 4)]
        else:
            shape = [rng.randint(1, 8), rng.randint(1, 8), 1]
            if rng.random() < 0.1:
                shape = [1, 1, 1]
        if shape[0] * shape[1] * shape[2] <= big:
            break
    k = {"int": rng.choice([0, 5, 20, 50.5, 40, 20.0]), "ext": rng.choice([0, 5, 20, 100, 300 if pallet else 20, 40.0])}
    if pallet:
        k["ext"] = rng.choice([50, 100, 300, 500])
        if rng.random() < 0.3:
            k["s0"] = 20
    else:
        k["s0"] = rng.choice([200, 500, 1000, 2000, 123.4])
        r = rng.random()
        if r < 0.2:
            k["s_sigma_rel"] = rng.choice([0.5, 0.8, 1.2])
        elif r < 0.4:
            k["s_sigma_rel"] = rng.choice([0.05, 0.1, 0.3])
        elif r < 0.6:
            k["s_sigma_rel"] = 0
    dt = rng.choice([0.5, 1, 2, 2.5, 5, 10])
    start = rng.choice([20, 5, 0, 10.5, -2])
    stop = rng.choice([-30, -40, -50, -45.5, -60])
    rate = rng.choice([0.05, 0.1, 0.25, 0.5, 1.0, 0.02])
    holds = None
    r = rng.random()
    if r < 0.35:
        holds = [[rng.choice([-5, -8, -10, -12.5]), rng.choice([30, 100, 300, 17.5])]]
    elif r < 0.5:
        holds = [[-5, rng.choice([50, 120])], [-15, rng.choice([60, 200.5])]]
    nsteps = rng.choice([200, 500, 1000, 1500] if tier == "quick" else [500, 1000, 2000, 3000])
    t_tot = dt * nsteps * rng.choice([1, 1, 0.97, 1.003])
    oc = dict(t_tot=t_tot, start=start, stop=stop, rate=rate, holds=holds, cnTemp=None)
    if holds and rng.random() < 0.4:
        oc["cnTemp"] = holds[-1][0]
    elif rng.random() < 0.05:
        oc["cnTemp"] = rng.choice([-7, -12])
    case = dict(kind="structured", N_vials=shape, k=k, dt=dt, seed=_seed(rng),
                seed_v=_seed(rng), opcond=oc, T0=None, config=_config(rng, arrangement),
                initIce=rng.choice(["indirect", "direct", "indirect", "direct", "Indirect", "DIRECT", "InDirect",
                                    "Direct", "INDIRECT", "dIrEcT"]),
                threshold=rng.choice([0.9, 0.9, 0.5, 0.99, 0.75]))
    if rng.random() < 0.3:
        case["T0"] = start + rng.choice([5, -3, 0.5, 15])
    # stay inside the stability range of the explicit scheme
    s = stability(case)
    if s > 0.9:
        f = s / rng.uniform(0.3, 0.9)
        case["dt"] = float(2.0 ** math.floor(math.log2(dt / f)))
        case["opcond"]["t_tot"] = case["dt"] * nsteps
    return case


def _history(rng, tier, force=None, how=None):
    """the observed run is the SECOND run of one object whose settings were changed in between
    (cooling rate only / t_tot / a hold duration / dt / T_k_0 / shelf coefficient): every
    step must follow the program and coefficients in force for THAT run"""
    c = _structured(rng, tier)
    c["kind"] = "history"
    c["N_vials"] = [rng.randint(1, 4), rng.randint(1, 4), 1]
    if "s0" not in c["k"]:
        c["k"] = {"int": 20, "ext": 20, "s0": rng.choice([200, 500])}
    while stability(c) > 0.9:
        c["dt"] = c["dt"] / 2
    oc = c["opcond"]
    oc["t_tot"] = min(oc["t_tot"], c["dt"] * 500)
    if c.get("T0") is None:
        c["T0"] = oc["start"]
    what = force or rng.choice(["rate", "rate_fine", "rate_fine", "t_tot", "hold", "dt", "T0", "s0", "rate+dt", "shape"])
    if what == "shape":
        a, b = rng.choice([(4, 3), (2, 3), (3, 2), (4, 2), (2, 4), (5, 2)])   # transposed shape differs
        c["N_vials"] = [a, b, 1]
        if not c["k"]["int"]:
            c["k"]["int"] = rng.choice([5, 20])        # the interaction structure must matter
        if not c["k"]["ext"]:
            c["k"]["ext"] = rng.choice([5, 20])
        while stability(c) > 0.9:
            c["dt"] = c["dt"] / 2
    pre = {"how": how or rng.choice(["mutate", "assign"])}
    poc = json.loads(json.dumps(oc))
    if what in ("rate", "rate+dt"):
        poc["rate"] = oc["rate"] * rng.choice([1.25, 0.8, 2.0, 0.5])
    if what == "rate_fine":
        # only the rate changes, by an amount that does not show with two decimals
        if rng.random() < 0.3:
            oc["rate"] = rng.choice([0.5 / 60, 0.104, 0.253])
        r2 = round(oc["rate"], 2)
        for _ in range(50):
            cand = r2 + rng.uniform(-0.0045, 0.0045)
            if cand > 0 and f"{cand:4.2f}" == f"{oc['rate']:4.2f}" and abs(cand - oc["rate"]) > 0.03 * oc["rate"]:
                poc["rate"] = cand
                break
        else:
            poc["rate"] = oc["rate"] * 0.8
    if what == "t_tot":
        poc["t_tot"] = oc["t_tot"] * rng.choice([0.5, 0.999, 1.5])
    if what == "hold":
        if not oc.get("holds"):
            oc["holds"] = [[-5, 60.004]]
        poc["holds"] = [[h[0], h[1] + rng.choice([0.003, 30, -0.002])] for h in oc["holds"]]
        if oc.get("cnTemp") is not None:
            oc["cnTemp"] = oc["holds"][-1][0]
        poc["cnTemp"] = oc.get("cnTemp")
    if what != "hold" and oc.get("holds") is None:
        poc["holds"] = None
    pre["opcond"] = poc
    if what in ("dt", "rate+dt"):
        pre["dt"] = c["dt"] * rng.choice([0.5, 2.0]) if stability(c) < 0.45 else c["dt"] * 0.5
    if what == "T0":
        pre["T0"] = c["T0"] + rng.choice([3.0, -2.0])
    if what == "s0":
        pre["k"] = dict(c["k"])
        pre["k"]["s0"] = c["k"]["s0"] * rng.choice([0.5, 0.9])
    if what == "shape":
        # the batch is re-declared with another shape of the same size, then a new seed is set
        pre["N_vials"] = [c["N_vials"][1], c["N_vials"][0], 1]
        pre["seed"] = c["seed"] + 1
    if "T0" not in pre:
        pre["T0"] = c["T0"]
    c["pre"] = pre
    c["history"] = what
    return c


def _tiny(rng, tier):
    """nucleation at a tiny supercooling: a hold a hair below T_eq_l with controlled nucleation
    at its end; the ice fraction formed is 1e-5 … 1e-11 and the vial must from then on take the
    solidification step (classification by sigma == 0 exactly)"""
    eps = rng.choice([1e-3, 1e-6, 5e-7, 1e-9, 2e-7])
    cfg = None
    if rng.random() < 0.4:
        cfg = {"solution": {"solid_fraction": rng.choice([0.1, 0.2])}}
    ph = fu.physical(cfg)
    hold = ph["T_eq_l"] - eps
    dt = rng.choice([1.0, 2.0])
    n = rng.choice([[1, 1, 1], [2, 1, 1], [2, 2, 1]])
    oc = dict(t_tot=dt * rng.choice([700, 900]), start=hold + rng.choice([0.5, 1.0]), stop=-40.0,
              rate=rng.choice([0.1, 0.05]), holds=[[hold, 1000.0 if dt == 1.0 else 1200.0]], cnTemp=hold)
    oc["t_tot"] = oc["holds"][0][1] + 200 * dt
    return dict(kind="tiny-supercooling", N_vials=n, k={"int": rng.choice([0, 20]), "ext": 0, "s0": 1000},
                dt=dt, seed=_seed(rng), seed_v=_seed(rng), opcond=oc, T0=None, config=cfg,
                initIce=rng.choice(["indirect", "direct", "Direct"]), threshold=0.9, eps=eps)


def _subset(rng, tier):
    """states recorded for an UNSORTED list of vial indices"""
    c = _late_cn(rng, tier) if rng.random() < 0.5 else _structured(rng, tier)
    c["kind"] = "subset"
    c["N_vials"] = [rng.randint(3, 5), rng.randint(2, 4), 1]
    if "s0" not in c["k"]:
        c["k"] = {"int": 20, "ext": 20, "s0": 300}
    c["k"]["s_sigma_rel"] = rng.choice([0.1, 0.3])      # vials differ
    while stability(c) > 0.9:
        c["dt"] = c["dt"] / 2
    c["opcond"]["t_tot"] = min(c["opcond"]["t_tot"], c["dt"] * 600)
    n = c["N_vials"][0] * c["N_vials"][1]
    idx = rng.sample(range(n), rng.randint(2, min(5, n)))
    if idx == sorted(idx):
        idx.reverse()
    c["store"] = idx
    return c


def _intcoef(rng, tier, j=None):
    """heat-transfer coefficients given as INTEGERS (Python int, numpy integer) and as floats, with
    k_int × neighbour count beyond 127 and 32767: the conductances must be the real products"""
    combos = [([4, 4, 1], "square", 40), ([3, 3, 2], "hexagonal", 20), ([4, 4, 1], "square", 200),
              ([3, 3, 1], "square", 10000), ([2, 3, 3], "square", 40), ([3, 4, 1], "hexagonal", 25)]
    shape, arr, kint = combos[j % len(combos)] if j is not None else rng.choice(combos)
    k = {"int": kint, "ext": rng.choice([20, 40, 130])}
    if shape[2] == 1:
        k["s0"] = rng.choice([200, 500])
    c = dict(kind="integer-coefficients", N_vials=shape, k=k, dt=1.0, seed=_seed(rng), seed_v=_seed(rng),
             opcond=dict(t_tot=300.0, start=5.0, stop=-40.0, rate=0.2, holds=None, cnTemp=None), T0=None,
             config=({"snowfall_parameters": {"vial_arrangement": "hexagonal"}} if arr == "hexagonal" else None),
             initIce="indirect", threshold=0.9)
    t = rng.choice([None, None, "int32", "int64", "float64"]) if j is None or j >= 4 else None
    if t:
        c["k_types"] = {key: t for key in k}
    while stability(c) > 0.9:
        c["dt"] = c["dt"] / 2
    c["opcond"]["t_tot"] = c["dt"] * 300
    return c


def _last_step(rng, tier):
    """controlled nucleation in the FINAL time step (t_tot = end of the hold): the vials nucleate in
    step N-1, their nucleation time is the end of that step and no recorded column shows their ice"""
    hold = rng.choice([-8.0, -6.5])
    oc = dict(t_tot=10000.0, start=5.0, stop=-40.0, rate=rng.choice([0.1, 0.05]),
              holds=[[hold, rng.choice([100.0, 60.0])]], cnTemp=hold)
    oc["t_tot"] = float(fu.make_opcond(oc).cnt)
    return dict(kind="last-step-nucleation", N_vials=[rng.randint(1, 3), rng.randint(1, 3), 1],
                k={"int": 20, "ext": 20, "s0": rng.choice([300, 500])}, dt=1.0, seed=_seed(rng), seed_v=_seed(rng),
                opcond=oc, T0=None, config=None, initIce=rng.choice(["indirect", "direct"]), threshold=0.9)


def _long_hold(rng, tier):
    """complete solidification during a LONG hold (the frozen batch equilibrates with the shelf), then
    another ramp: every step must follow that step's shelf temperature to the end"""
    hold = rng.choice([-20.0, -25.0])
    dur = rng.choice([3000.0, 3400.0])
    oc = dict(t_tot=0.0, start=5.0, stop=-50.0, rate=0.5, holds=[[hold, dur]], cnTemp=None)
    oc["t_tot"] = (5.0 - hold) / 0.5 + dur + (hold + 50.0) / 0.5 + 40.0
    return dict(kind="long-hold-then-ramp", N_vials=rng.choice([[3, 3, 1], [2, 2, 1]]),
                k={"int": 20, "ext": 20, "s0": rng.choice([400, 600])}, dt=rng.choice([1.0, 2.0]),
                seed=_seed(rng), seed_v=_seed(rng), opcond=oc, T0=None, config=None,
                initIce=rng.choice(["indirect", "direct"]), threshold=0.9)


def _dilute(rng, tier, j=None):
    """configured solutions, incl. a very dilute one (the freezing-point-depression term is then
    stiff near complete solidification), other melting point and heat capacities; long enough to
    freeze completely"""
    sf = [5e-4, 0.01, 0.2, 5e-4][j % 4] if j is not None else rng.choice([5e-4, 0.01, 0.2, 1e-3])
    sol = {"solid_fraction": sf}
    if rng.random() < 0.5:
        sol["T_eq"] = rng.choice([-0.5, 0.25])
    if rng.random() < 0.5:
        sol["cp_s"] = rng.choice([1000, 1500.5])
    cfg = {"solution": sol}
    if rng.random() < 0.4:
        cfg["water"] = rng.choice([{"cp_w": 4200}, {"cp_i": 2000}])
    c = dict(kind="configured-solution", N_vials=rng.choice([[2, 2, 1], [1, 1, 1], [3, 1, 1]]),
             k={"int": 5, "ext": 5, "s0": 100}, dt=2.0, seed=_seed(rng), seed_v=_seed(rng),
             opcond=dict(t_tot=4400.0, start=5.0, stop=-30.0, rate=0.1, holds=None, cnTemp=None), T0=None,
             config=cfg, initIce=rng.choice(["indirect", "direct"]), threshold=0.9)
    return c


def _late_cn(rng, tier):
    """controlled nucleation that triggers AFTER some vials have nucleated spontaneously: at the
    trigger step only the still-liquid supercooled vials may nucleate"""
    hold = rng.choice([-18.0, -20.0, -22.5])
    return dict(kind="late-cn", N_vials=[rng.randint(2, 4), rng.randint(2, 4), 1],
                k={"int": rng.choice([5, 20]), "ext": rng.choice([5, 20]), "s0": rng.choice([300, 500]),
                   "s_sigma_rel": rng.choice([0, 0.1])},
                dt=2.0, seed=_seed(rng), seed_v=_seed(rng),
                opcond=dict(t_tot=900.0, start=5.0, stop=-40.0, rate=rng.choice([0.1, 0.08]),
                            holds=[[hold, rng.choice([150.0, 250.0])]], cnTemp=hold),
                T0=None, config=None, initIce=rng.choice(["indirect", "direct"]), threshold=0.9)


def cases(rng, tier):
    for j in range(4 if tier == "quick" else 40):
        c = _late_cn(rng, tier)
        if j < 2:                      # vial seed 0 / run seed 0 with vial-to-vial variability
            c["seed_v"], c["seed"] = (0, 5) if j == 0 else (7, 0)
        yield c
    for j in range(6 if tier == "quick" else 60):
        yield _intcoef(rng, tier, j if j < 6 else None)
    for _ in range(2 if tier == "quick" else 20):
        yield _last_step(rng, tier)
    for _ in range(2 if tier == "quick" else 10):
        yield _long_hold(rng, tier)
    for j in range(3 if tier == "quick" else 30):
        yield _dilute(rng, tier, j if j < 4 else None)
    n, nh, nt = (40, 12, 6) if tier == "quick" else (1300, 150, 50)
    for _ in range(n):
        yield _structured(rng, tier)
    for j in range(nh):
        yield _history(rng, tier, force="rate_fine" if j < 4 else "shape" if j < 6 else None,
                       how=("mutate" if j % 2 == 0 else "assign") if j < 4 else None)
    for _ in range(4 if tier == "quick" else 40):
        yield _subset(rng, tier)
    for _ in range(nt):
        yield _tiny(rng, tier)


def widen(rng, tier):
    for _ in range(64 if tier == "quick" else 500):
        yield _structured(rng, tier)
