"""C08 Spatial model nucleates at the first crossing of its hazard integral."""
from __future__ import annotations

import math

import snowingutil as su  # imports shim first
import numpy as np

import core
from core import Failure, close

ID = "C08"
LEAN_MODULE = "SnowProofs.Props.C08"
THEOREMS = [
    dict(name="Snow.C08.nuc_first_crossing_0D", clause="0D: cooling ends at step i iff F_nuc > F_rand at i and at no earlier step", strength="full"),
    dict(name="Snow.C08.nuc_first_crossing_1D", clause="1D: cooling ends at step i iff F_nuc > F_rand at i and at no earlier step", strength="full"),
    dict(name="Snow.C08.no_crossing_raises_1D", clause="1D: no nucleation iff the hazard never crosses (then ValueError)", strength="full"),
    dict(name="Snow.C08.E_is_riemann_sum_0D", clause="0D: E_i = sum_{j<=i} K_v(T_j) dt, K_v = J V", strength="full"),
    dict(name="Snow.C08.E_is_riemann_sum_1D", clause="1D: E_i = sum_{j<=i} K_v,j dt", strength="full"),
    dict(name="Snow.C08.Kv_is_quadrature_1D", clause="1D: K_v = A simpson(J_z, z), J_z = kb (T_eq_l - T)^b on the supercooled mask", strength="full"),
    dict(name="Snow.C08.E_mono_0D", clause="0D: E never decreases", strength="full"),
    dict(name="Snow.C08.E_mono_1D", clause="1D: E never decreases (non-negative quadrature weights)", strength="full"),
    dict(name="Snow.simpson_uniform_weights", clause="Simpson weights on a uniform grid, both parities, derived from the SciPy formula", strength="full"),
    dict(name="Snow.C08.simpson_weights_nonneg", clause="the weights on the model's z grid are non-negative (odd and even N >= 3)", strength="full"),
    dict(name="Snow.C08.Tnuc_stats_order", clause="min <= mean <= max", strength="full"),
    dict(name="Snow.C08.Tnuc_kin_bounds", clause="min <= T_kin <= T_eq_l when K_v > 0", strength="full"),
    dict(name="Snow.C08.Tnuc_kin_else", clause="T_kin = 273.15 K when K_v <= 0 (explicit else branch)", strength="full"),
    dict(name="Snow.C08.stats_at_nucleation_instant", clause="1D: the four temperatures and t_nuc are those of the field of the break step", strength="full"),
    dict(name="Snow.C08.stats_at_nucleation_instant_0D", clause="0D: T_nuc, t_nuc are those of the break step", strength="full"),
    dict(name="Snow.C08.Tnuc_order_of_run", clause="1D, any nucleation mode: min <= mean <= max; min <= T_kin <= T_eq_l if K_v > 0 at the break step, else T_kin = 0 C (the else case is characterised by else_branch_iff_1D and excluded for stochastic runs by Tnuc_order_of_stochastic_run)", strength="full"),
    dict(name="Snow.C08.nonvacuous", clause="hypotheses are satisfiable (concrete crossing run, well-formed grid)", strength="nonvacuity"),
    dict(name="Snow.S2D.plan_eval_eq_simpson", clause="2D: the Simpson plan of the 2D model is scipy's simpson (every numeric instance)", strength="full"),
    dict(name="Snow.S2D.coolLoop_eq", clause="2D: S2D.coolLoop is the generic loopUntil on states built from the 2D model's own step functions", strength="full"),
    dict(name="Snow.C08.nuc_first_crossing_2D", clause="2D: cooling ends at step i iff F_nuc > F_rand at i and at no earlier step", strength="full"),
    dict(name="Snow.C08.no_crossing_raises_2D", clause="2D: no nucleation iff the hazard never crosses", strength="full"),
    dict(name="Snow.C08.E_is_riemann_sum_2D", clause="2D: E_i = sum_{j<=i} K_v,j dt", strength="full"),
    dict(name="Snow.C08.Kv_is_quadrature_2D", clause="2D: K_v = simpson(2 pi simpson(r J, r), z), J = kb (T_eq_l - T)^b on the supercooled mask", strength="full"),
    dict(name="Snow.C08.E_mono_2D", clause="2D: E never decreases (weights w_z 2 pi r w_r >= 0)", strength="full"),
    dict(name="Snow.C08.Tnuc_stats_order_2D", clause="2D: min <= mean <= max, given that the field of the break step is non-empty (hypothesis hsz; discharged in Tnuc_stats_order_of_run_2D)", strength="full"),
    dict(name="Snow.C08.Tnuc_stats_order_of_run_2D", clause="2D: min <= mean <= max for every completed run on a grid with Nz, Nr > 0 (field size Nz*Nr is a loop invariant)", strength="full"),
    dict(name="Snow.C08.Tnuc_kin_bounds_2D", clause="2D: min <= T_kin <= T_eq_l when K_v > 0", strength="full"),
    dict(name="Snow.C08.Tnuc_kin_else_2D", clause="2D: T_kin = 273.15 K when K_v <= 0", strength="full"),
    dict(name="Snow.C08.stats_at_nucleation_instant_2D", clause="2D: the four temperatures and t_nuc are those of the field of the break step", strength="full"),
    dict(name="Snow.C08.Tnuc_order_of_run_2D", clause="2D, any nucleation mode: min <= mean <= max; min <= T_kin <= T_eq_l if K_v > 0 at the break step, else T_kin = 0 C (excluded for stochastic runs by Tnuc_order_of_stochastic_run_2D)", strength="full"),
    dict(name="Snow.C08.nonvacuous_2D", clause="2D hypotheses are satisfiable (well-formed 30 x 15 grid)", strength="nonvacuity"),
    dict(name="Snow.C08.run2D_cool", clause="2D link: a completed S2D.run left the proof-side cooling loop (cool2D / st2D) at r.iCool with that loop state, and its result is assembled from it", strength="full"),
    dict(name="Snow.C08.Kv_pos_at_crossing_1D", clause="1D: at a stochastic nucleation K_v > 0 (F_rand >= 0, dt > 0)", strength="full"),
    dict(name="Snow.C08.Tnuc_order_of_stochastic_run", clause="1D, unconditional: min <= mean <= max and min <= T_kin <= T_eq_l for a stochastic nucleation", strength="full"),
    dict(name="Snow.C08.Kv_pos_at_crossing_2D", clause="2D: at a stochastic nucleation K_v > 0", strength="full"),
    dict(name="Snow.C08.Tnuc_order_of_stochastic_run_2D", clause="2D, unconditional: min <= mean <= max and min <= T_kin <= T_eq_l for a stochastic nucleation", strength="full"),
    dict(name="Snow.C08.simpsonW_pos", clause="all Simpson weights of a uniform grid are strictly positive (h > 0)", strength="full"),
    dict(name="Snow.C08.Kv_pos_of_supercooled_1D", clause="1D: K_v > 0 as soon as one node is supercooled (A > 0)", strength="full"),
    dict(name="Snow.C08.Kv_zero_of_none_supercooled_1D", clause="1D: K_v = 0 when no node is supercooled", strength="full"),
    dict(name="Snow.C08.else_branch_iff_1D", clause="1D: the else-branch T_kin = 273.15 K is taken exactly when no node is supercooled at the nucleation instant - unreachable for a stochastic nucleation, reachable only for controlled nucleation at or above T_eq_l", strength="full"),
    dict(name="Snow.C08.dt_grid1D_nonneg", clause="1D: the code's dt is non-negative (alpha_max >= 0)", strength="full"),
    dict(name="Snow.C08.E_mono_1D_code", clause="1D: E never decreases, dt hypothesis discharged from the constants", strength="full"),
]
TRUSTED = [
    "Lean 4.33 kernel; axioms per theorem listed under coverage.axioms",
    "theorems are over the reals: IEEE rounding is not modelled",
    "hand-written models SnowModel/Snowing0D.lean, Snowing1D.lean tied to snowing.py by this differential check "
    "(observed agreement is bit-for-bit except np.mean's pairwise summation)",
    "SnowModel/Simpson.lean models scipy.integrate.simpson (compared with SciPy, not proved equal)",
    "numpy's legacy generator and scipy.stats.norm.ppf: their outputs (xi, F_rand) are inputs of the model",
    "2D model SnowModel/Snowing2D.lean (work package G) with all flags false = the repaired code in /repo; tied here by real 2D runs",
]
ASSUMPTIONS = [
    "satisfiability of the hypothesis 'the run completed' (1D: (run1D p).exc = none; 2D: S2D.run ... = .ok r) is NOT witnessed in Lean (the models need exp/pow/sqrt, there is no computable real instance and no Transc instance of Rat); it rests on the differential runs of this check, in which the compiled model and the real code both complete on the same inputs. The 0D non-vacuity theorems are concrete completed runs over the reals.",
    "stochastic nucleation (cnTemp = None); geometry with height > 0, A >= 0, Nz >= 3 for the quadrature facts",
    "every step recorded (<= 10 000 steps) in the runs whose hazard integral is re-computed from recorded fields",
    "continuous comparisons rtol 1e-9 (E recomputed from recorded fields: 1e-6); step indices exactly; "
    "decisions closer than 1e-9 to F_rand count as ties",
]
RULE = ("two 1D programmes with > 10 000 steps (save stride 3; nucleation step compared exactly with the model, "
        "which integrates on every step); 0D and 1D (shelf, VISF) programs from a calibrated table (<= 10 000 steps) with random start temperature, "
        "optional hold, kinetics b/a varied, F_rand scripted over early/middle/late/never and the real seed-0 draw; "
        "2D real runs evaluated by the predicates only; non-trivial = run completed and nucleated after step 0")
EXPLANATION = ("Lean theorems about the cooling-loop fold of the 0D/1D models + differential check of these models "
               "against Snowing.run(); the property itself re-evaluated on the real recorded fields with an "
               "independent quadrature")
PARALLEL = True

# --- regeneration tie (harness/gentie.py): the formulas of the hand model SnowModel/Snowing0D.lean, Snowing1D.lean are re-derived
# from /repo's source on every run and proved equal to the generated text (lean/SnowProofs/Props/GenTie/)
import gentie  # noqa: E402
THEOREMS = THEOREMS + gentie.theorems("0D") + gentie.theorems("1D")
extra_lean_targets = list(globals().get("extra_lean_targets", [])) + [gentie.module("0D"), gentie.module("1D")]
TRUSTED = TRUSTED + ["harness/translate.py formula extraction (single assignments of the run loop -> Lean definitions; "
                     "anything outside its tiny language is a TranslatorError)"]


def regenerate():
    gentie.regenerate("0D")
    gentie.regenerate("1D")

LEVEL_TEXT = ("Lean 4 theorems about executable models of _run_0D and _run_1D (exact real arithmetic), tied to /repo on every run by a differential check (bit-for-bit agreement observed except np.mean). Proved in full for 0D and 1D: nucleation at the first step with F_nuc > F_rand and at no other (fold invariant of the cooling loop); E is the Riemann sum of K_v dt with K_v = J V (0D) / A simpson(J_z, z) (1D) over the supercooled mask; E is non-decreasing; the weights of scipy's simpson on a uniform grid are derived from its formula for both parities (odd: h/3[1,4,2,...,4,1]; even: last three 5h/4, h, 5h/12) and are non-negative; min <= mean <= max; min <= T_kin <= T_eq_l UNCONDITIONALLY for a stochastic nucleation (at the first crossing E_i > E_{i-1}, hence K_v dt > 0: Kv_pos_at_crossing, given F_rand >= 0 and dt > 0; the code's else-branch T_kin = 273.15 K is taken exactly when no node is supercooled at the nucleation instant (else_branch_iff_1D: all Simpson weights are strictly positive), which a stochastic nucleation excludes and only controlled nucleation at or above T_eq_l can reach); the four numbers are those of the field of the break step. The same clauses are proved for the 2D model (SnowModel/Snowing2D.lean, K_v = simpson(2 pi simpson(r J, r), z), weights w_z 2 pi r w_r >= 0) through a bridge that identifies its cooling loop with the generic fold (coolLoop_eq, run2D_cool links S2D.run to the proof-side loop), including the unconditional order of the four temperatures (Tnuc_order_of_stochastic_run_2D); the 2D model is tied to /repo by comparing real 2D runs (nucleation step, t_nuc, the four temperatures) and the clauses are also evaluated on the real 2D fields. The per-step formulas of the 0D and 1D hand models are additionally tied by REGENERATION: harness/translate.py extracts them from /repo on every run and SnowProofs/Props/GenTie proves the generated text equal to the hand model (a changed formula breaks that proof).")

TIE = 1e-9


# ---------------------------------------------------------------------------
def run_impl(case):
    return su.run_real_cached(case)


def _run_model_one(drv, case):
    if case["dim"] == "2D":
        prog = su.programs(case)[0]
        m = su.model_2d(drv, case, prog, prog["Frand"] if prog.get("Frand") is not None else su.recorded_frand(0))
        m["is2D"] = True
        return m
    mi = su.model_init(case)
    if mi is not None:
        return mi
    rec = su.record_inputs(case)
    if rec.get("raise"):
        # the rule says this case constructs; the model cannot echo the implementation
        return {"raise": None, "stage": "init", "no_constants": rec["raise"]}
    prog = su.programs(case)[0]
    if case.get("Nrep"):
        # repetition i of a study = the single run whose F_rand is the draw of seed i
        rows = [su.decode_model(drv.call(su.model_request(case, rec, prog=prog, Frand=su.recorded_frand(i), old=False,
                                                          row_stride=10 ** 9))) for i in range(int(case["Nrep"]))]
        return {"table": rows, "raise": next((m["raise"] for m in rows if m["raise"]), None)}
    fr = prog["Frand"] if prog.get("Frand") is not None else su.recorded_frand(0)
    r = drv.call(su.model_request(case, rec, prog=prog, Frand=fr, old=False, traces=True, row_stride=10 ** 9))
    m = su.decode_model(r)
    m["Frand"] = fr
    return m


def _step_of(t_nuc_min, dt):
    return int(round(t_nuc_min * 60.0 / dt))


def _dt(case, const):
    return 0.1 if case["dim"] == "0D" else su.dt_1d(const) if case["dim"] == "1D" else su.dt_2d(const)


def _compare_one(case, impl, model):
    dis = []
    if model is None:
        return dis
    if impl.get("raise") or model.get("stage") == "init":
        if (impl.get("raise") or None) != (model.get("raise") or None):
            dis.append(f"init exception: impl {impl.get('raise')} vs rule {model.get('raise')}")
        return dis
    run = impl["runs"][0]
    if model.get("is2D"):
        return su.compare_2d(case, run, model, arrays=False)
    if "table" in model:
        if (run["raise"] or None) != (model["raise"] or None):
            return [f"study exception: impl {run['raise']} vs model {model['raise']}"]
        if run["raise"]:
            return dis
        tab = run["snap"].get("results_table")
        if not isinstance(tab, list) or len(tab) != len(model["table"]):
            return [f"results table: impl {tab if not isinstance(tab, list) else len(tab)} rows vs model {len(model['table'])}"]
        for i, (a, m) in enumerate(zip(tab, model["table"])):
            for k, v in m["stats"].items():
                if k in ("t_sol", "t_fr"):
                    continue
                if not close(a.get(k), v):
                    dis.append(f"repetition {i} = single run of seed {i}: column {k} impl {a.get(k)!r} vs model {v!r}")
        return dis[:6]
    if (run["raise"] or None) != (model["raise"] or None):
        # a different exception may be a tie of the stop decision
        if _is_tie(model):
            return ["TIE: stop decision within 1e-9 of F_rand"]
        dis.append(f"exception: impl {run['raise']} vs model {model['raise']} ({model.get('stage')})")
        return dis
    if run["raise"]:
        return dis
    res = run["snap"]["results"]
    st = model["stats"]
    dt = _dt(case, impl["const"])
    if case["dim"] == "1D" and not close(dt, model["dt"]):
        dis.append(f"dt: derived {dt} vs model {model['dt']}")
    if res.get("t_nuc") is None:
        return dis + ["results row of a run that returned has no t_nuc"]
    i_impl = _step_of(res["t_nuc"], dt)
    if i_impl != model["NtCoolEnd"]:
        if _is_tie(model, i_impl):
            return ["TIE: nucleation step differs within the 1e-9 margin of F_nuc vs F_rand"]
        dis.append(f"nucleation step: impl {i_impl} vs model {model['NtCoolEnd']}")
        return dis
    for k in st:
        if k in ("t_sol", "t_fr"):
            continue  # C13's business
        if not close(res[k], st[k]):
            dis.append(f"{k}: impl {res[k]!r} vs model {st[k]!r}")
    # E re-computed from the implementation's recorded fields vs the model's accumulator
    E = _reconstruct_E(case, impl, run)
    if E is not None:
        Em = model["Etrace"]
        if len(E) != len(Em):
            dis.append(f"E trace length: from impl fields {len(E)} vs model {len(Em)}")
        else:
            for j in (0, len(E) // 2, len(E) - 2, len(E) - 1):
                if 0 <= j < len(E) and not close(E[j], Em[j], rtol=1e-6) and abs(E[j] - Em[j]) > 1e-300:
                    dis.append(f"E[{j}]: from impl fields {E[j]!r} vs model {Em[j]!r}")
                    break
    return dis


def _is_tie(model, i_other=None):
    Em = model.get("Etrace") or []
    fr = model.get("Frand")
    if fr is None or not Em:
        return False
    idx = [len(Em) - 1]
    if model.get("NtCoolEnd") is not None:
        idx.append(model["NtCoolEnd"])
    if i_other is not None:
        idx.append(i_other)
    lo, hi = max(0, min(idx) - 1), min(len(Em) - 1, max(idx))
    for j in range(lo, hi + 1):
        F = 1 - math.exp(-Em[j])
        if abs(F - fr) <= TIE * max(1.0, abs(fr)):
            return True
    return False


# ---------------------------------------------------------------------------
# the property on the implementation's output (independent quadrature)
# ---------------------------------------------------------------------------
def _every_step_recorded(case, impl):
    if case["dim"] == "0D":
        return True
    dt = _dt(case, impl["const"])
    return su.n_steps(case["t_tot"], dt) <= 10000


def _fields(case, impl, run):
    """cooling-stage temperature fields (K) by step, as recorded by the implementation"""
    res = run["snap"]["results"]
    dt = _dt(case, impl["const"])
    i_end = _step_of(res["t_nuc"], dt)
    temp = run["snap"]["temp"]
    if case["dim"] == "0D":
        T = [t + 273.15 for t in temp[:i_end]] + [res["T_nuc"] + 273.15]
        return np.array(T), i_end, dt
    return np.array(temp[: i_end + 1]) + 273.15, i_end, dt


def _Kv(case, impl, T, weights="simpson"):
    c = impl["const"]
    J = su.rate_field(T, c, impl["xi"])
    W = su.simpson_weights if weights == "simpson" else su.trapezoid_weights
    if case["dim"] == "0D":
        return J * c["V"]
    if case["dim"] == "1D":
        wz = W(30, c["height"] / 29)
        return c["A"] * (J @ wz)
    wz = W(30, c["height"] / 29)
    radius = c["diameter"] / 2
    wr = W(15, radius / 14)
    r = np.linspace(0, radius, 15)
    return np.einsum("tzr,z,r->t", J, wz, 2 * np.pi * r * wr)


def _reconstruct_E(case, impl, run, weights="simpson"):
    if run.get("raise") or not _every_step_recorded(case, impl):
        return None
    T, i_end, dt = _fields(case, impl, run)
    if len(T) != i_end + 1:
        return None
    Kv = _Kv(case, impl, T, weights)
    if case["dim"] == "0D":
        Kv = np.where(Kv >= 0, Kv, 0.0)
    return list(np.cumsum(Kv * dt))


def _predicates_table(case, impl, run):
    """Nrep > 1: every row of the results table, column by label"""
    out = []
    site = f"_run_{case['dim']}"
    tab = run["snap"].get("results_table")
    if not isinstance(tab, list):
        return out
    Tl_C = su.T_eq_l_of(impl["const"]) - 273.15
    for i, row in enumerate(tab):
        if case["dim"] == "0D" or any(row.get(k) is None for k in ("T_nuc_min", "T_nuc_kin", "T_nuc_mean", "T_nuc_max")):
            continue
        mn, kin, mean, mx = row["T_nuc_min"], row["T_nuc_kin"], row["T_nuc_mean"], row["T_nuc_max"]
        if not (mn <= mean + 1e-9 and mean <= mx + 1e-9):
            out.append(Failure(clause="Tnuc_stats_order", key=f"Tnuc_stats_order|{site}|Nrep>1",
                               detail=f"results table, repetition {i}: min {mn}, mean {mean}, max {mx}"))
            break
        if kin != 0.0 and not (mn <= kin + 1e-9 and kin <= Tl_C + 1e-9):
            out.append(Failure(clause="Tnuc_kin_bounds", key=f"Tnuc_kin_bounds|{site}|Nrep>1",
                               detail=f"results table, repetition {i}: min {mn}, kin {kin}, T_eq_l {Tl_C}"))
            break
    return out


def _predicates_one(case, impl):
    out = []
    if impl.get("raise") or not impl.get("runs"):
        return out
    run = impl["runs"][0]
    if case.get("Nrep") and not run.get("raise"):
        out = _predicates_table(case, impl, run)
        tab = run["snap"].get("results_table")
        if isinstance(tab, list) and tab and all(v is not None for v in tab[-1].values()):
            # the arrays on the object are those of the LAST repetition (seed Nrep-1): its row against them
            last = dict(run, Frand=su.recorded_frand(int(case["Nrep"]) - 1))
            last["snap"] = dict(run["snap"], results=tab[-1])
            c1 = {k: v for k, v in case.items() if k != "Nrep"}
            fs = _predicates_one(c1, dict(impl, runs=[last]))
            for f in fs:
                f["key"] += "|last-repetition"
            out += fs
        return out
    if run.get("raise") or case.get("cnTemp") is not None:
        return out
    dim = case["dim"]
    site = f"_run_{dim}"
    res = run["snap"]["results"]
    if not isinstance(res, dict) or "raise" in res or any(v is None for v in res.values()):
        out.append(Failure(clause="stats_at_nucleation_instant", key=f"results_incomplete|{site}|",
                           detail=f"run() returned but the results row is {res}"))
        return out
    c = impl["const"]
    dt = _dt(case, c)
    fr = run["Frand"]
    Tl_C = su.T_eq_l_of(c) - 273.15
    tol = 1e-9
    # --- order of the reported temperatures ---------------------------------
    if dim != "0D":
        mn, kin, mean, mx = res["T_nuc_min"], res["T_nuc_kin"], res["T_nuc_mean"], res["T_nuc_max"]
        if not (mn <= mean + tol and mean <= mx + tol):
            out.append(Failure(clause="Tnuc_stats_order", key=f"Tnuc_stats_order|{site}|",
                               detail=f"min {mn}, mean {mean}, max {mx}"))
    # --- first crossing, from the recorded fields ----------------------------
    if not _every_step_recorded(case, impl):
        return out
    T, i_end, _ = _fields(case, impl, run)
    if not close(i_end * dt / 60.0, res["t_nuc"]):
        out.append(Failure(clause="stats_at_nucleation_instant", key=f"t_nuc_on_grid|{site}|",
                           detail=f"t_nuc {res['t_nuc']} min is not a multiple of dt={dt}"))
        return out
    E = _reconstruct_E(case, impl, run)
    if E is None:
        out.append(Failure(clause="history", key=f"cooling_rows_missing|{site}|",
                           detail=f"fewer recorded cooling rows than steps up to t_nuc ({len(T)} vs {i_end + 1})"))
        return out
    # the code decides `1 - exp(-E) > F_rand` on doubles: evaluate the crossing in F-space. Margin = the
    # uncertainty of the re-computed E (1e-7 relative) mapped into F, plus the quantisation of F near 1 (4 ulp):
    # a decision inside the margin is a tie, not a failure (same rule as `compare`)
    E_rand = -math.log1p(-fr) if fr < 1 else math.inf

    def F_of(e):
        return 1.0 - math.exp(-e)

    def margin(e):
        return 1e-7 * e * math.exp(-e) + 4 * 2.220446049250313e-16

    if F_of(E[i_end]) < fr - margin(E[i_end]):
        out.append(Failure(clause="nuc_first_crossing", key=f"nuc_first_crossing|{site}|early",
                           detail=f"nucleated at step {i_end} although E={E[i_end]!r} (F={F_of(E[i_end])!r}) has not "
                                  f"reached F_rand={fr!r} (-log(1-F_rand)={E_rand!r})"))
    late = [j for j in range(i_end) if F_of(E[j]) > fr + margin(E[j])]
    if late:
        j0 = late[0]
        out.append(Failure(clause="nuc_first_crossing", key=f"nuc_first_crossing|{site}|late",
                           detail=f"nucleated at step {i_end} although F_nuc={F_of(E[j0])!r} exceeded F_rand={fr!r} "
                                  f"already at step {j0} (E={E[j0]!r}, -log(1-F_rand)={E_rand!r})"))
    # coarse cross-check of the volume element with a second quadrature
    Et = _reconstruct_E(case, impl, run, "trapezoid")
    if dim != "0D" and E[i_end] > 0 and not (0.2 < Et[i_end] / E[i_end] < 5.0):
        out.append(Failure(clause="E_is_riemann_sum", key=f"quadrature_mismatch|{site}|",
                           detail=f"Simpson E {E[i_end]} vs trapezoid E {Et[i_end]}"))
    for j in range(len(E) - 1):
        if E[j + 1] < E[j] * (1 - 1e-12):
            out.append(Failure(clause="E_mono", key=f"E_mono|{site}|", detail=f"E decreases at step {j + 1}"))
            break
    # --- the statistics are those of the field at step i_end ------------------
    Tn = T[i_end]
    if dim == "0D":
        return out
    checks = [("T_nuc_min", float(Tn.min()) - 273.15), ("T_nuc_mean", float(np.mean(Tn)) - 273.15),
              ("T_nuc_max", float(Tn.max()) - 273.15)]
    Kv_end = float(_Kv(case, impl, T[i_end:i_end + 1])[0])
    J = su.rate_field(Tn, c, impl["xi"])
    if Kv_end > 0:
        if dim == "1D":
            wz = su.simpson_weights(30, c["height"] / 29)
            kin = float(c["A"] * ((Tn * J) @ wz) / Kv_end)
        else:
            wz = su.simpson_weights(30, c["height"] / 29)
            radius = c["diameter"] / 2
            wr = su.simpson_weights(15, radius / 14)
            r = np.linspace(0, radius, 15)
            kin = float(np.einsum("zr,z,r->", Tn * J, wz, 2 * np.pi * r * wr) / Kv_end)
        checks.append(("T_nuc_kin", kin - 273.15))
        if not (res["T_nuc_min"] <= res["T_nuc_kin"] + 1e-9 and res["T_nuc_kin"] <= Tl_C + 1e-9):
            out.append(Failure(clause="Tnuc_kin_bounds", key=f"Tnuc_kin_bounds|{site}|",
                               detail=f"min {res['T_nuc_min']}, kin {res['T_nuc_kin']}, T_eq_l {Tl_C}"))
    else:
        checks.append(("T_nuc_kin", 0.0))
    for k, v in checks:
        if not close(res[k], v, rtol=1e-8):
            out.append(Failure(clause="stats_at_nucleation_instant", key=f"stats_at_nucleation_instant|{site}|{k}",
                               detail=f"{k} reported {res[k]!r} but the field of step {i_end} gives {v!r}"))
    return out


# --- object histories: every run of the history is checked as the run of a fresh object with the programme
# --- and the CONFIGURATION IN FORCE at that run (run() clears earlier outputs; constants are re-derived
# --- by the configPath setter)
def _views(case, impl):
    if impl.get("raise") or not impl.get("runs"):
        return [(case, impl)]
    out = []
    for k, run in enumerate(impl["runs"]):
        ck = su.case_of_run(case, k) if len(impl["runs"]) > 1 else case
        ik = dict(impl, runs=[run])
        if run.get("const") is not None:
            ik["const"], ik["visf"] = run["const"], run.get("visf")
        out.append((ck, ik))
    return out


def run_model(drv, case):
    n = len(su.programs(case))
    if n == 1:
        return _run_model_one(drv, case)
    return {"history": [_run_model_one(drv, su.case_of_run(case, k)) for k in range(n)]}


def compare(case, impl, model):
    if model is None or "history" not in model:
        return _compare_one(case, impl, model)
    if impl.get("raise"):
        return _compare_one(case, impl, model["history"][0])
    dis = []
    for k, ((ck, ik), mk) in enumerate(zip(_views(case, impl), model["history"])):
        if "snap" not in ik["runs"][0]:
            continue
        dis += [f"run {k} of the object history: {d}" for d in _compare_one(ck, ik, mk)]
    return dis


def predicates(case, impl):
    out = su.init_failures(case, impl, Failure)
    for k, (ck, ik) in enumerate(_views(case, impl)):
        if ik.get("runs") and "snap" not in ik["runs"][0]:
            continue
        fs = _predicates_one(ck, ik)
        if k > 0:
            for f in fs:
                f["key"] += "|object-history"
                f["detail"] = f"run {k} of the object history (re-configured object): " + f["detail"]
        out += fs
    return out


def classify(case, impl):
    tags = [f"dim={case['dim']}", f"config={case.get('config', 'shelf')}", f"frand={case.get('frkind', 'real')}"]
    if impl.get("raise"):
        tags.append("init-raise")
    elif impl["runs"][0].get("raise"):
        tags.append("raise=" + impl["runs"][0]["raise"])
    else:
        tags.append("completed")
    return tags


def nontrivial(case, impl):
    if impl.get("raise") or not impl.get("runs") or impl["runs"][0].get("raise"):
        return False
    return impl["runs"][0]["snap"]["results"]["t_nuc"] > 0


# ---------------------------------------------------------------------------
# generators
# ---------------------------------------------------------------------------
FR_KINDS = [("real", None), ("early", 1e-9), ("early", 1e-4), ("mid", 0.2), ("mid", 0.5), ("mid", 0.9),
            ("late", 1 - 1e-6), ("late", 1 - 1e-12)]


def _kin_yaml(rng):
    if rng.random() < 0.5:
        return None
    return {"kinetics": {"a": rng.choice([27.0, 29.0, 31.0]), "b": rng.choice([12.0, 20.5, 29.3]),
                         "c": rng.choice([0.5, 1.0])}}


def case_0d(rng):
    frk, fr = rng.choice(FR_KINDS)
    rate = rng.choice([0.05, 0.1, 0.25, 0.5 / 60 * 4])
    k = rng.choice([30, 50, 100, 200])
    start = rng.choice([20, 5, 12.5, rng.uniform(0, 25)])
    holds = None
    if rng.random() < 0.3:
        holds = [[rng.choice([0, -5, -8]), rng.choice([60, 300])]]
    t_tot = rng.choice([2500, 3500, 4500]) + (0 if holds is None else holds[0][1]) + (70 / rate if rate < 0.05 else 0)
    c = dict(dim="0D", config="shelf", k_s0=k, t_tot=t_tot, start=start, stop=-50, rate=rate, holds=holds,
             cnTemp=None, Frand=fr, frkind=frk)
    y = _kin_yaml(rng)
    if y:
        c["yaml"] = y
    return su.with_yaml(c, su.solution_yaml(rng))


def case_1d(rng, config="shelf"):
    h, k, rate, steps = rng.choice(su.CAL_1D)
    frk, fr = rng.choice(FR_KINDS)
    dt = su.dt_1d_default(h)
    start = rng.choice([20, 20, 10, rng.uniform(5, 25)])
    extra = 0
    holds = None
    if rng.random() < 0.3:
        dur = rng.choice([20, 60]) * dt
        holds = [[rng.choice([0, -5]), dur]]
        extra = int(dur / dt)
    n = min(steps + extra + (400 if frk == "late" else 0), 9900)
    c = dict(dim="1D", config=config, height=h, k_s0=k, t_tot=n * dt, start=start, stop=-50, rate=rate,
             holds=holds, cnTemp=None, Frand=fr, frkind=frk)
    if config == "VISF":
        tv = rng.choice([0.02, 0.1, 0.3]) * n * dt / 3600
        c["yaml"] = {"VISF": {"t_vac_start": tv, "t_vac_duration": rng.choice([0.02, 0.05]),
                              "p_vac": rng.choice([50, 100, 300])}}
    su.with_yaml(c, _kin_yaml(rng) if rng.random() < 0.3 else None)
    return su.with_yaml(c, su.solution_yaml(rng))


def case_never(rng, dim):
    if dim == "0D":
        return dict(dim="0D", config="shelf", k_s0=50, t_tot=rng.choice([50, 200]), start=20, stop=-50, rate=0.1,
                    holds=None, cnTemp=None, Frand=rng.choice([0.3, 1 - 1e-12]), frkind="never")
    h = rng.choice([0.03, 0.05])
    return dict(dim="1D", config="shelf", height=h, k_s0=400, t_tot=rng.choice([100, 300]) * su.dt_1d_default(h),
                start=20, stop=-50, rate=0.1, holds=None, cnTemp=None, Frand=0.5, frkind="never")


def case_2d(rng):
    h = 0.05
    frk, fr = rng.choice([("mid", 0.5), ("early", 1e-4), ("real", None)])
    dt = su.dt_2d_default(h, h)
    c = dict(dim="2D", config="shelf", height=h, diameter=h, k_s0=2000, t_tot=9500 * dt, start=20, stop=-50,
             rate=0.5, holds=None, cnTemp=None, Frand=fr, frkind=frk)
    return su.with_yaml(c, {"solution": {"T_eq": rng.choice([3.82, -1.5])}})


def cases_visf_early(tier):
    """VISF with the vacuum applied from 0.002 h while the shelf is held ABOVE the freezing point: only the
    evaporating top of the product is supercooled when the hazard crosses (the rate must be integrated over the
    supercooled part wherever it lies)"""
    visf = {"VISF": {"t_vac_start": 0.002, "t_vac_duration": 0.05, "p_vac": 100}}
    out = []
    for h, k, steps, fr in ((0.05, 400, 6100, 0.5), (0.05, 2000, 5400, 0.2)):
        dt = su.dt_1d_default(h)
        out.append(dict(dim="1D", config="VISF", height=h, k_s0=k, t_tot=steps * dt, start=20, stop=-50, rate=0.5,
                        holds=[[5, 150]], cnTemp=None, Frand=fr, frkind="mid", yaml=visf, kind="visf-early"))
    h = 0.05
    out.append(dict(dim="2D", config="VISF", height=h, diameter=h, k_s0=2000, t_tot=9800 * su.dt_2d_default(h, h),
                    start=20, stop=-50, rate=0.5, holds=[[5, 150]], cnTemp=None, Frand=0.5, frkind="mid", yaml=visf,
                    kind="visf-early"))
    return out


def cases_reconfigure():
    """ONE object: run, then `S.configPath = <yaml with other kinetics>`, run again - the hazard of the second
    run must be the one of the CURRENT constants"""
    p0 = dict(dim="0D", config="shelf", k_s0=100, t_tot=3000, start=20, stop=-50, rate=0.1, holds=None, cnTemp=None,
              frkind="mid", kind="reconfigure")
    a = dict(p0, Frand=0.5)
    a["runs"] = [dict(t_tot=3000, start=20, stop=-50, rate=0.1, holds=None, cnTemp=None, Frand=0.5,
                      reconfig={"kinetics": {"a": 26.0, "c": 0.3}})]
    h = 0.05
    dt = su.dt_1d_default(h)
    p1 = dict(dim="1D", config="shelf", height=h, k_s0=2000, t_tot=4700 * dt, start=20, stop=-50, rate=0.5, holds=None,
              cnTemp=None, frkind="mid", kind="reconfigure", Frand=0.4)
    b = dict(p1)
    b["runs"] = [dict(t_tot=4700 * dt, start=20, stop=-50, rate=0.5, holds=None, cnTemp=None, Frand=0.4,
                      reconfig={"kinetics": {"a": 31.0, "b": 20.5}})]
    return [a, b]


def cases_nrep():
    """a sequential 1D study: the results table row by row (row i = single run of seed i), column by label"""
    h = 0.05
    dt = su.dt_1d_default(h)
    return [dict(dim="1D", config="shelf", height=h, k_s0=2000, t_tot=4900 * dt, start=20, stop=-50, rate=0.5,
                 holds=None, cnTemp=None, Frand=None, frkind="real", Nrep=2, how="sequential", kind="Nrep=2",
                 yaml={"solution": {"T_eq": 3.82}})]


def cases_mode_switch():
    """ONE object whose OperatingConditions had a cnTemp when it was assigned and is switched to stochastic
    nucleation IN PLACE (`S.opcond.cnTemp = None`), and the reverse: each run must nucleate by the rule of the
    CURRENT operating conditions (first crossing of the hazard when cnTemp is None)"""
    def nxt(base, cn):
        return dict(t_tot=base["t_tot"], start=base["start"], stop=base["stop"], rate=base["rate"], holds=None,
                    cnTemp=cn, Frand=0.5, edit="cnTemp-in-place")

    p0 = dict(dim="0D", config="shelf", k_s0=100, t_tot=3000, start=20, stop=-50, rate=0.1, holds=None, Frand=0.5,
              frkind="mid", kind="mode-switch-in-place")
    h = 0.05
    dt = su.dt_1d_default(h)
    p1 = dict(dim="1D", config="shelf", height=h, k_s0=2000, t_tot=5000 * dt, start=20, stop=-50, rate=0.5, holds=None,
              Frand=0.5, frkind="mid", kind="mode-switch-in-place")
    return [dict(p0, cnTemp=-5.0, runs=[nxt(p0, None)]),
            dict(p0, cnTemp=None, runs=[nxt(p0, -8.0), nxt(p0, None)]),
            dict(p1, cnTemp=-5.0, runs=[nxt(p1, None)])]


def cases(rng, tier):
    for c in cases_mode_switch():
        yield c
    yield su.jacket_case()
    for c in cases_nrep():
        yield c
    for c in cases_reconfigure():
        yield c
    n0, n1, nv, nn, n2 = (28, 12, 3, 4, 1) if tier == "quick" else (400, 150, 30, 20, 8)
    # processes with more than 10 000 steps (save stride > 1): the model integrates the hazard on EVERY
    # step; the nucleation step is compared exactly
    for c in su.stride_cases():
        yield c
    for c in cases_visf_early(tier):
        yield c
    for _ in range(n1):
        yield case_1d(rng)
    for _ in range(nv):
        yield case_1d(rng, "VISF")
    for _ in range(n2):
        yield case_2d(rng)
    for _ in range(n0):
        yield case_0d(rng)
    for i in range(nn):
        yield case_never(rng, "0D" if i % 2 else "1D")


def widen(rng, tier):
    for _ in range(24):
        yield case_1d(rng)
    for _ in range(60):
        yield case_0d(rng)
