"""C18 State recording stores exactly the requested vials, unperturbed."""
from __future__ import annotations

import contextlib
import re

import shim  # noqa: F401
import numpy as np

import core
from core import Failure, f2b, b2f
from props.c09 import config_for, HarnessError, stored_mask, empty_store, state_matrix, check_arr

ID = "C18"
LEAN_MODULE = "SnowProofs.Props.C18"
THEOREMS = [
    dict(name="Snow.C18.ints_exact", clause="an index list is accepted iff every index is in 0..N-1 and then records exactly the listed vials", strength="full"),
    dict(name="Snow.C18.seq_non_int_rejected", clause="a list/tuple with a numpy scalar, float or other non-int, non-str entry is rejected (ValueError), nothing is truncated; int/bool entries are their values", strength="full"),
    dict(name="Snow.C18.group_exact", clause="a group request records exactly getVialGroup of the first group word found", strength="full"),
    dict(name="Snow.C18.uniform_request", clause="a 'uniform n' request records every ceil(len/n)-th vial of the group (what the interpretation computes)", strength="full"),
    dict(name="Snow.C18.random_request", clause="a 'random n' request records the supplied choice, or is rejected (ValueError) when n exceeds the group", strength="full"),
    dict(name="Snow.C18.default_count_requests", clause="requests without a number use defaultCount N = int(ceil(0.1*N)) and then behave like the explicit-count request (uniform: at most that many, inside the group; random: rejected iff larger than the group); the numeric value of the IEEE expression is compared with the code for every N in a range on each run, not proved", strength="full"),
    dict(name="Snow.C18.uniform_le", clause="'uniform n': at most n vials, all from the group, at least one", strength="full"),
    dict(name="Snow.C18.random_exact", clause="'random n': for a choice without repetition of n candidates, exactly n vials, all from the group — the hypotheses restate numpy's Generator.choice(replace=False) contract — true by construction of the model; the fact about the CODE rests on the correspondence check (the contract is re-checked on every recorded call)", strength="by-construction"),
    dict(name="Snow.C18.strings_union", clause="a list of requests: unfolded recursion (element-wise OR of the single masks); content: all masks have one entry per vial, so the OR never truncates and vial i is recorded iff a single request records it", strength="full"),
    dict(name="Snow.C18.rows_order", clause="a stored column is the temperatures of the recorded vials in index order followed by their ice fractions in the same order", strength="full"),
    dict(name="Snow.C18.subset_eq_full", clause="the rows stored for a subset are the corresponding rows of the full recording: in the model the states of a step are the same lists for every mask (mask-independence of the dynamics is ASSUMED in the model) — true by construction of the model; the fact about the CODE rests on the correspondence check (subset run vs full run, bit for bit)", strength="by-construction"),
    dict(name="Snow.C18.reject_meaningless", clause="every malformed request (explicit category table on the request type) is rejected at construction with the class of its category: ValueError (intended) or UnboundLocalError / ZeroDivisionError / IndexError (accidental)", strength="full"),
    dict(name="Snow.C18.accept_well_formed", clause="every other request is accepted: acceptance / rejection at construction is a total decision", strength="full"),
    dict(name="Snow.C18.nonvacuous", clause="hypotheses are satisfiable (concrete requests on a 3x3 shelf)", strength="nonvacuity"),
]
TRUSTED = [
    "Lean 4.33 kernel; axioms per theorem listed under coverage.axioms",
    "hand-written model SnowModel/Store.lean tied to Snowflake.__init__/_interpretStorageString/run by this differential check",
    "numpy Generator.choice(a, size, replace=False) returns `size` distinct elements of `a` (its output is recorded and is input of the model; the contract is re-checked on every recorded call)",
    "Python str.lower / substring / re.findall(r'\\d+') on ASCII text as transcribed in the model; int(np.ceil(0.1*N)) in IEEE doubles (computed with Lean Float in the model)",
    "that the simulated dynamics do not depend on the mask is established for the code only by the comparison of real runs (subset run vs full run, bit for bit)",
]
ASSUMPTIONS = [
    "request strings are ASCII; entries of list/tuple requests are Python ints, bools, floats, strings or numpy scalars "
    "(the model receives the entry's type); a numpy *integer* entry may be accepted or rejected by the property, the "
    "model mirrors the code (rejected)",
    "shapes with n_y >= 2 or flat square single rows (the topology of other single-row shapes is C09's subject)",
    "the subset run and the full run are separate objects constructed with the same seeds; no re-seeding between construction and run",
]
RULE = ("random shapes (n_x, n_y <= 5, n_z <= 3, both arrangements) x requests from a grammar (index lists with "
        "duplicates / out of range, lists given entry by entry with Python ints, bools, numpy integer and floating "
        "scalars, floats and names, every group name in several spellings, random/uniform with and without count, "
        "counts 0 and larger than the group, ambiguous strings, lists of requests, malformed requests); every case "
        "constructs the real object, runs a short real simulation with the request and with 'all' (same seeds) and "
        "compares every stored value bit for bit; plus the uniform sweep: 'uniform_n' over a whole batch of L vials for "
        "every (L, n), L <= 60, n <= L + 1 (thorough) / the pairs where a fractional stride would overshoot and four full "
        "L (quick), constructed only; plus the default-count stream: storeStates='random' on N x 1 x 1 for "
        "every N <= 260 (quick) / 900 (thorough) and a few larger N up to 1000 / 3000, constructed only, count compared with the model's "
        "defaultCount; a case is non-trivial when the request is accepted, at least one "
        "vial is recorded and at least one vial nucleates in the run; distinct by JSON form")
EXPLANATION = ("Lean theorems about the storeStates interpretation and the masked write + differential check of masks, "
               "row order and stored values against real runs")
PARALLEL = True

NAMES = ["corner", "edge", "core", "side", "all", "center"]
T_TOT, DT = 1500, 5


# ---------------------------------------------------------------------------
class _RecRng:
    """recording proxy around a numpy Generator (installed by the harness only)"""

    def __init__(self, g, log):
        self._g = g
        self._log = log

    def choice(self, a, size=None, replace=True, **kw):
        r = self._g.choice(a, size=size, replace=replace, **kw)
        self._log.append({"a": [int(x) for x in np.asarray(a).ravel()], "size": None if size is None else int(size),
                          "replace": bool(replace), "out": [int(x) for x in np.asarray(r).ravel()]})
        return r

    def spawn(self, n):
        return [_RecRng(c, self._log) for c in self._g.spawn(n)]

    def __getattr__(self, name):
        return getattr(self._g, name)


@contextlib.contextmanager
def _recording(log):
    import ethz_snow.snowflake  # noqa: F401  (first import, which itself draws random numbers, outside the proxy)

    real = np.random.default_rng

    def fake(*a, **k):
        # default_rng(generator) returns the generator itself
        if a and isinstance(a[0], _RecRng):
            return a[0]
        return _RecRng(real(*a, **k), log)

    np.random.default_rng = fake
    try:
        yield
    finally:
        np.random.default_rng = real


_NP = {"npint64": np.int64, "npint32": np.int32, "npuint8": np.uint8, "npfloat64": np.float64,
       "npfloat32": np.float32}


def _item(t, v):
    """one entry of a list/tuple request with the given Python type"""
    if t in _NP:
        return _NP[t](v)
    return {"int": int, "bool": bool, "float": float, "str": str}[t](v)


def _model_item(t, v):
    if t.startswith("npint") or t.startswith("npuint"):
        return ["npint", int(v)]
    if t.startswith("npfloat") or t == "float":
        return ["float", 0]
    return [t, v]


def to_py(spec):
    k = spec["kind"]
    if k == "none":
        return None
    if k == "ints":
        return tuple(spec["ints"]) if spec.get("tuple") else list(spec["ints"])
    if k == "str":
        return spec["str"]
    if k == "strs":
        return tuple(spec["strs"]) if spec.get("tuple") else list(spec["strs"])
    if k == "mixed":
        return [0, "all"]
    if k == "seq":
        xs = [_item(t, v) for t, v in spec["items"]]
        return tuple(xs) if spec.get("tuple") else xs
    if k == "other":
        return {"int": 5, "float": 3.5, "dict": {"a": 1}, "set": {1, 2}}[spec["py"]]
    raise ValueError(k)


def _mk(case, store):
    from ethz_snow.snowflake import Snowflake
    from ethz_snow.operatingConditions import OperatingConditions

    oc = OperatingConditions(t_tot=T_TOT, cooling={"rate": 0.5, "start": 20, "end": -50})
    S = Snowflake(k={"int": 20, "ext": 20, "s0": 20}, N_vials=(case["nx"], case["ny"], case["nz"]), opcond=oc,
                  dt=DT, seed=case["seed"], seed_v=case["seed"] + 17, storeStates=store,
                  configPath=config_for(case["arr"]))
    check_arr(S, case["arr"])
    return S


def _run_count(case):
    """default-count stream: storeStates='random' on a single row of N vials, constructed only;
    the number of recorded vials is int(np.ceil(0.1 * N))"""
    log = []
    try:
        with _recording(log):
            S = _mk(case, to_py(case["spec"]))
    except HarnessError:
        raise
    except Exception as e:
        return {"raise": core.exc_class(e), "stage": "init", "choices": log, "groups": {}}
    mask = [int(i) for i in np.where(stored_mask(S))[0]]
    N = int(len(stored_mask(S)))
    return {"raise": None, "choices": log, "mask": mask, "n": N, "emptyStore": empty_store(S),
            "count": len(mask), "countonly": True, "groups": {g: list(range(N)) for g in NAMES}}


def run_impl(case):
    if case.get("kind") in ("count", "sweep"):
        return _run_count(case)
    log = []
    obs = {"raise": None}
    try:
        A = _mk(case, "all")
        obs["groups"] = {g: [int(i) for i in np.where(A.getVialGroup(g))[0]] for g in NAMES}
    except HarnessError:
        raise
    except Exception as e:
        return {"raise": core.exc_class(e), "stage": "run", "choices": log}
    try:
        with _recording(log):
            S = _mk(case, to_py(case["spec"]))
    except HarnessError:
        raise
    except Exception as e:
        return {"raise": core.exc_class(e), "stage": "init", "choices": log, "groups": obs["groups"]}
    obs["choices"] = log
    mask = [int(i) for i in np.where(stored_mask(S))[0]]
    obs["mask"] = mask
    obs["n"] = int(len(stored_mask(S)))
    obs["emptyStore"] = empty_store(S)
    try:
        S.run()
        A.run()
    except HarnessError:
        raise
    except Exception as e:
        return {"raise": core.exc_class(e), "stage": "run", "choices": log}
    X, XA = state_matrix(S), state_matrix(A)
    N = obs["n"]
    n = len(mask)
    obs["xshape"] = [int(X.shape[0]), int(X.shape[1])]
    obs["nuc"] = int(np.sum(~np.isnan(A.stats["t_nucleation"])))
    want = np.concatenate([A.X_T[mask, :], A.X_sigma[mask, :]]) if n else np.zeros((0, XA.shape[1]))
    eq = X.shape == want.shape and bool(np.array_equal(X, want, equal_nan=True))
    obs["subset_equal"] = eq
    if not eq and X.shape == want.shape:
        r, c = np.argwhere(~((X == want) | (np.isnan(X) & np.isnan(want))))[0]
        obs["first_diff"] = [int(r), int(c), float(X[r, c]), float(want[r, c])]
    obs["stats_equal"] = all(bool(np.array_equal(S.stats[k], A.stats[k], equal_nan=True)) for k in A.stats)
    obs["split_ok"] = bool(S.X_T.shape[0] == n and S.X_sigma.shape[0] == n)
    obs["init_ok"] = bool(np.all(S.X_T[:, 0] == S.T_k_0) and np.all(S.X_sigma[:, 0] == 0)) if n else True
    # the same object after re-applying its seed (what Snowfall does before every run)
    S.seed = case["seed"]
    S.run()
    X2 = state_matrix(S)
    obs["subset_equal_reseed"] = bool(X2.shape == want.shape and np.array_equal(X2, want, equal_nan=True))
    # two columns of the full state for the model's masked write
    nt = XA.shape[1]
    sig_any = np.where(np.any(A.X_sigma > 0, axis=0))[0]
    ks = sorted({int(sig_any[len(sig_any) // 2]) if len(sig_any) else nt // 2, nt - 1})
    obs["cols"] = [{"k": k, "T": [f2b(v) for v in A.X_T[:, k]], "sigma": [f2b(v) for v in A.X_sigma[:, k]],
                    "col": [f2b(v) for v in X[:, k]]} for k in ks]
    return obs


def run_model(drv, case, impl):
    sh = {"arr": case["arr"], "nx": case["nx"], "ny": case["ny"], "nz": case["nz"]}
    req = dict(op="store", **sh, **{k: v for k, v in case["spec"].items() if k in ("kind", "ints", "str", "strs")})
    if case["spec"]["kind"] == "seq":
        req["items"] = [_model_item(t, v) for t, v in case["spec"]["items"]]
    req["choices"] = [c["out"] for c in impl.get("choices", [])]
    r = drv.call(req)
    if "error" in r:
        raise RuntimeError(r["error"])
    if "raise" in r:
        return {"raise": r["raise"]}
    out = {"raise": None, "mask": r["mask"], "n": r["n"], "emptyStore": r["emptyStore"], "cols": []}
    if case.get("kind") == "count":
        rc = drv.call({"op": "defaultCount", "N": [r["n"]]})
        if "error" in rc:
            raise RuntimeError(rc["error"])
        out["count"] = rc["count"][0]
    for c in impl.get("cols", []):
        rr = drv.call({"op": "record", "n": r["n"], "mask": r["mask"], "T": c["T"], "sigma": c["sigma"]})
        if "error" in rr:
            raise RuntimeError(rr["error"])
        out["cols"].append({"k": c["k"], "col": rr["col"], "nT": len(rr["T"]), "nSigma": len(rr["sigma"])})
    return out


def compare(case, impl, model):
    dis = []
    if impl.get("stage") == "run":
        dis.append(f"implementation raises {impl['raise']} during run; not modelled")
        return dis
    if impl.get("raise") or model.get("raise"):
        if impl.get("raise") != model.get("raise"):
            dis.append(f"exception: impl {impl.get('raise')} vs model {model.get('raise')}")
        return dis
    if impl["n"] != model["n"]:
        dis.append(f"mask length: impl {impl['n']} vs model {model['n']}")
    if impl["mask"] != model["mask"]:
        dis.append(f"storage mask: impl {impl['mask']} vs model {model['mask']}")
    if impl["emptyStore"] != model["emptyStore"]:
        dis.append(f"emptyStore: impl {impl['emptyStore']} vs model {model['emptyStore']}")
    if impl.get("countonly"):
        if case.get("kind") == "count" and impl["count"] != model.get("count"):
            dis.append(f"default count for N={impl['n']}: impl records {impl['count']} vials, model defaultCount = {model.get('count')}")
        return dis
    if impl["xshape"][0] != 2 * len(model["mask"]):
        dis.append(f"rows of X: impl {impl['xshape'][0]} vs model {2 * len(model['mask'])}")
    if impl["subset_equal"]:
        # the full run is the same simulation: the model's masked write applied to its states
        for ci, cm in zip(impl["cols"], model["cols"]):
            if ci["col"] != cm["col"]:
                dis.append(f"stored column k={ci['k']}: implementation differs from record(mask, T_k, sigma_k)")
            if cm["nT"] != len(model["mask"]) or cm["nSigma"] != len(model["mask"]):
                dis.append(f"split of column k={ci['k']}: model {cm['nT']}+{cm['nSigma']} rows")
    return dis


# ---------------------------------------------------------------------------
# the property itself, evaluated on the implementation's output
# ---------------------------------------------------------------------------
def parse(s):
    """what a request string names, by the documented grammar (oracle side)"""
    s = s.lower()
    groups = [g for g in NAMES if g in s]
    mode = "random" if "random" in s else "uniform" if "uniform" in s else None
    nums = [int(x) for x in re.findall(r"\d+", s)]
    return groups, mode, nums


def spec_class(case):
    sp = case["spec"]
    if sp["kind"] in ("str", "strs"):
        ss = [sp["str"]] if sp["kind"] == "str" else sp["strs"]
        if any("random" in s.lower() for s in ss):
            return "random"
        if any("uniform" in s.lower() for s in ss):
            return "uniform"
        return "group"
    return sp["kind"]


def string_opinion(s, groups_of, N):
    """what the property says about ONE request string on this batch:
    verdict True = must be rejected, False = must be accepted, None = no opinion (ambiguous wording);
    plus the group G it draws from, the mode, and the admissible number [cmin, cmax] of recorded vials"""
    groups, mode, nums = parse(s)
    if not groups and not mode:
        return dict(verdict=True, why="no group word, no random/uniform")
    if mode and len(nums) > 1:
        return dict(verdict=True, why="more than one number")
    if len(groups) > 1:
        return dict(verdict=None, why="names several groups")
    G = list(groups_of[groups[0]]) if groups else list(range(N))
    if mode is None:
        return dict(verdict=False, G=G, mode=None, cmin=len(G), cmax=len(G))
    if nums:
        cmin = cmax = nums[0]
    else:
        # default "10 %": int(ceil(0.1 * N)) in doubles is ceil(N/10) or one more
        cmin, cmax = -(-N // 10), -(-N // 10) + 1
    if mode == "random":
        verdict = True if cmin > len(G) else False if cmax <= len(G) else None
        return dict(verdict=verdict, G=G, mode=mode, cmin=cmin, cmax=cmax, why="more vials asked than the group has")
    if nums and nums[0] == 0:
        return dict(verdict=True, why="uniform with zero vials")
    if not G:
        return dict(verdict=None, G=G, mode=mode, cmin=0, cmax=0, why="uniform over an empty group")
    return dict(verdict=False, G=G, mode=mode, cmin=1, cmax=cmax)


def _mask_problems(s, op, m):
    """clauses an ACCEPTED single request string must satisfy (never more than asked, never outside the group)"""
    probs = []
    if op.get("G") is None:
        return probs
    G = op["G"]
    if op["mode"] is None:
        if m != G:
            probs.append(("group_exact", f"request {s!r} records {m}, the group is {G}"))
        return probs
    if not set(m) <= set(G):
        probs.append((f"{op['mode']}_subset", f"request {s!r} records {sorted(set(m) - set(G))} outside the group {G}"))
    if op["mode"] == "random" and not (op["cmin"] <= len(m) <= op["cmax"]):
        probs.append(("random_exact", f"request {s!r} records {len(m)} vials, asked {op['cmin']}..{op['cmax']}"))
    if op["mode"] == "uniform" and G and not (1 <= len(m) <= op["cmax"]):
        probs.append(("uniform_le", f"request {s!r} records {len(m)} vials, asked at most {op['cmax']} of {len(G)}"))
    if op["mode"] == "uniform" and not G and m:
        probs.append(("uniform_subset", f"request {s!r} records {m} from an empty group"))
    return probs


def predicates(case, impl):
    out = []
    sp = case["spec"]
    sc = spec_class(case)
    site = "storeStates"
    where = f"{case['arr']} {case['nx']}x{case['ny']}x{case['nz']} storeStates={to_py(sp)!r}"
    N = case["nx"] * case["ny"] * case["nz"]
    raised = impl.get("raise")
    if impl.get("stage") == "run":
        out.append(Failure(clause="total", key=f"raises|Snowflake.run|{sc}|{raised}", detail=f"{where}: run raises {raised}"))
        return out
    # the generator contract behind every recorded choice
    for c in impl.get("choices", []):
        o = c["out"]
        if c["replace"] or len(set(o)) != len(o) or not set(o) <= set(c["a"]) or len(o) != c["size"]:
            out.append(Failure(clause="random_exact", key=f"random_exact|rng.choice|contract",
                               detail=f"{where}: choice(a={c['a']}, size={c['size']}, replace={c['replace']}) -> {o}"))
    must_raise = None
    if sp["kind"] in ("mixed", "other"):
        must_raise = True
    elif sp["kind"] == "ints":
        valid = all(0 <= x < N for x in sp["ints"])
        must_raise = not valid
        if valid and not raised and impl["mask"] != sorted(set(sp["ints"])):
            out.append(Failure(clause="ints_exact", key=f"ints_exact|{site}|",
                               detail=f"{where}: records {impl['mask']}"))
    elif sp["kind"] == "seq":
        types = [t for t, _ in sp["items"]]
        floaty = any(t in ("float", "npfloat64", "npfloat32") for t in types)
        strs = [t == "str" for t in types]
        if floaty or (any(strs) and not all(strs)):
            # an index list consists of integers: no truncation, no mixing with names
            must_raise = True
        elif types and all(t == "bool" for t in types):
            # numpy reads a list of bools only as a boolean mask: accepted iff its length is N
            if not raised and (len(types) != N or impl["mask"] != [i for i, (_, v) in enumerate(sp["items"]) if v]):
                out.append(Failure(clause="ints_exact", key=f"ints_exact|{site}|boolmask",
                                   detail=f"{where}: records {impl['mask']}"))
        elif not any(strs):
            vals = [int(v) for _, v in sp["items"]]
            valid = all(0 <= x < N for x in vals)
            if not valid:
                must_raise = True
            elif all(t in ("int", "bool") for t in types):
                must_raise = False
            if valid and not raised and impl["mask"] != sorted(set(vals)):
                out.append(Failure(clause="ints_exact", key=f"ints_exact|{site}|seq",
                                   detail=f"{where}: records {impl['mask']}"))
    elif sp["kind"] == "none":
        must_raise = False
        if not raised and (impl["mask"] or impl["xshape"][0] != 0):
            out.append(Failure(clause="none_empty", key=f"none_empty|{site}|", detail=f"{where}: records {impl['mask']}"))
    elif sp["kind"] == "str":
        op = string_opinion(sp["str"], impl["groups"], N)
        must_raise = op["verdict"]
        if not raised:
            probs = _mask_problems(sp["str"], op, impl["mask"])
            if op.get("mode") == "random" and impl.get("choices"):
                if sorted(impl["choices"][0]["out"]) != impl["mask"]:
                    probs.append(("random_exact", f"records {impl['mask']}, the generator chose {impl['choices'][0]['out']}"))
            for cl, d in probs:
                out.append(Failure(clause=cl, key=f"{cl}|{site}|{sc}", detail=f"{where}: {d}"))
    elif sp["kind"] == "strs":
        ops = [string_opinion(x, impl["groups"], N) for x in sp["strs"]]
        verdicts = [o["verdict"] for o in ops]
        must_raise = True if any(v is True for v in verdicts) else False if all(v is False for v in verdicts) else None
        if not raised and all(o.get("G") is not None for o in ops):
            # the union: nothing outside the named groups, every plainly named group completely, every drawn vial,
            # and never more vials than the requests ask for together
            m = set(impl["mask"])
            union = set().union(*[set(o["G"]) for o in ops]) if ops else set()
            need = set().union(*[set(o["G"]) for o in ops if o["mode"] is None]) if ops else set()
            chosen = iter(impl.get("choices", []))
            for x, o in zip(sp["strs"], ops):
                if o["mode"] == "random":
                    c = next(chosen, None)
                    if c is not None:
                        need |= set(c["out"])
                        if not set(c["out"]) <= set(o["G"]) or not (o["cmin"] <= len(c["out"]) <= o["cmax"]):
                            out.append(Failure(clause="random_exact", key=f"random_exact|{site}|{sc}",
                                               detail=f"{where}: entry {x!r} drew {c['out']} (asked {o['cmin']}..{o['cmax']} "
                                                      f"from {o['G']})"))
            cap = sum(o["cmax"] for o in ops)
            if not m <= union or not need <= m or len(m) > cap:
                out.append(Failure(clause="strings_union", key=f"strings_union|{site}|{sc}",
                                   detail=f"{where}: records {sorted(m)}; named groups {sorted(union)}; must contain "
                                          f"{sorted(need)}; at most {cap} vials asked"))
    if must_raise is True and not raised:
        out.append(Failure(clause="reject_meaningless", key=f"reject_meaningless|{site}|{sc}",
                           detail=f"{where}: accepted (records {impl.get('mask')})"))
    if must_raise is False and raised:
        out.append(Failure(clause="accept_valid", key=f"accept_valid|{site}|{sc}|{raised}",
                           detail=f"{where}: rejected with {raised}"))
    if raised or impl.get("countonly"):
        if impl.get("countonly") and not raised and case.get("kind") == "count":
            c = impl["count"]
            lo = -(-N // 10)
            if not (lo <= c <= lo + 1) or len(set(impl["mask"])) != c:
                out.append(Failure(clause="default_count", key=f"default_count|{site}|random",
                                   detail=f"{where}: records {c} vials; 10 % of {N} is {N / 10}"))
        return out
    if not impl["split_ok"] or not impl["init_ok"]:
        out.append(Failure(clause="rows_order", key=f"rows_order|Snowflake.run|{sc}",
                           detail=f"{where}: X_T/X_sigma split or first column wrong (temperatures first, ice fractions second)"))
    if not impl["subset_equal"]:
        fd = impl.get("first_diff")
        out.append(Failure(clause="subset_eq_full", key=f"subset_eq_full|Snowflake.run|{sc}",
                           detail=f"{where}, seed {case['seed']}: stored trajectories differ from the rows {impl['mask']} of the "
                                  f"run with storeStates='all' and the same seeds (first difference row,col,got,want = {fd}; "
                                  f"statistics equal: {impl['stats_equal']}; equal after re-applying the seed: "
                                  f"{impl['subset_equal_reseed']})"))
    return out


def classify(case, impl):
    if case.get("kind") == "sweep":
        return ["spec=uniform-sweep", f"raise={impl['raise']}" if impl.get("raise") else
                ("recorded=asked" if impl.get("count") == int(case["spec"]["str"].split("_")[1]) else "recorded<asked")]
    if case.get("kind") == "count":
        c, N = impl.get("count"), case["nx"]
        return ["spec=default-count", "count=ceil(N/10)" if c == -(-N // 10) else "count=ceil(N/10)+1 (IEEE product above the integer)"]
    tags = [f"spec={spec_class(case)}", f"arr={case['arr']}", "flat" if case["nz"] == 1 else "pallet"]
    if impl.get("raise"):
        tags.append(f"raise={impl['raise']}")
    else:
        tags.append("recorded=0" if not impl["mask"] else "recorded=all" if len(impl["mask"]) == impl["n"] else "recorded=some")
        tags.append("nucleation" if impl.get("nuc") else "no nucleation")
    return tags


def nontrivial(case, impl):
    if case.get("kind") == "sweep":
        return not impl.get("raise") and impl.get("count", 0) > 0
    if case.get("kind") == "count":
        return not impl.get("raise") and impl.get("count", 0) > 0
    return not impl.get("raise") and bool(impl.get("mask")) and impl.get("nuc", 0) > 0


# ---------------------------------------------------------------------------
# generators
# ---------------------------------------------------------------------------
SEPS = ["_", ".", "+", " ", "", "-"]


def _spell(rng, w):
    return rng.choice([w, w, w.upper(), w.capitalize(), w[:2].upper() + w[2:]])


def _string(rng, N):
    r = rng.random()
    if r < 0.18:
        return _spell(rng, rng.choice(NAMES))
    if r < 0.75:
        parts = []
        if rng.random() < 0.7:
            parts.append(_spell(rng, rng.choice(NAMES)))
        parts.append(_spell(rng, rng.choice(["random", "uniform"])))
        if rng.random() < 0.8:
            parts.append(str(rng.choice([0, 1, 1, 2, 2, 3, 4, 5, 7, N, N + 1, 1000, rng.randint(0, max(1, N))])))
        rng.shuffle(parts)
        sep = rng.choice(SEPS)
        if sep == "" and any(p.isdigit() for p in parts):
            sep = "_"
        return sep.join(parts)
    if r < 0.85:
        return rng.choice(["cornerEDGE", "edgecorner", "sidecore", "core_side", "randomuniform_2", "uniform_random3",
                           "small_uniform_2", "3random", "allcenter", "edge_corner_random_2", "center.uniform.2"])
    return rng.choice(["foo", "", "gibberish", "2random3", "random_2_3", "uniform 1 2", "rand", "unifrom_3", "12"])


def _seq(rng, N):
    """list/tuple requests entry by entry: python ints, bools, numpy integer and floating scalars, floats, names"""
    k = rng.choice([1, 2, 2, 3, 4])
    flavour = rng.choice(["npint", "npfloat", "npfloat", "float", "bool", "mix", "npfloat_whole"])
    items = []
    for _ in range(k):
        v = rng.randrange(N)
        if flavour == "npint":
            items.append([rng.choice(["npint64", "npint32", "int"]), v])
        elif flavour == "npfloat":
            items.append(rng.choice([["npfloat64", v + rng.choice([0.5, 0.25, 0.9])], ["npfloat32", v + 0.9],
                                     ["npfloat64", -0.5], ["npfloat64", N - 1 + 0.9], ["int", v]]))
        elif flavour == "npfloat_whole":
            items.append([rng.choice(["npfloat64", "npfloat32"]), float(v)])
        elif flavour == "float":
            items.append(rng.choice([["float", v + 0.5], ["float", float(v)], ["int", v]]))
        elif flavour == "bool":
            items.append(rng.choice([["bool", True], ["bool", False], ["int", v]]))
        else:
            items.append(rng.choice([["int", v], ["npint64", v], ["npfloat64", v + 0.5], ["str", "all"], ["bool", True],
                                     ["npuint8", v % 200]]))
    if flavour == "bool" and rng.random() < 0.3:
        items = [["bool", rng.random() < 0.4] for _ in range(N)]
    if flavour in ("npint", "npfloat") and rng.random() < 0.2:
        items.append([rng.choice(["npint64", "int"]), rng.choice([N, -1])])
    return {"kind": "seq", "items": items, "tuple": rng.random() < 0.3}


def _spec(rng, N):
    r = rng.random()
    if r < 0.12:
        return _seq(rng, N)
    r = rng.random()
    if r < 0.22:
        k = rng.choice([0, 1, 2, 3, N])
        xs = [rng.randrange(N) for _ in range(k)]
        if rng.random() < 0.2 and xs:
            xs.append(xs[0])
        if rng.random() < 0.2:
            xs.append(rng.choice([N, -1, N + 5, -N]))
        rng.shuffle(xs)
        return {"kind": "ints", "ints": xs, "tuple": rng.random() < 0.3}
    if r < 0.70:
        return {"kind": "str", "str": _string(rng, N)}
    if r < 0.92:
        return {"kind": "strs", "strs": [_string(rng, N) for _ in range(rng.choice([1, 2, 2, 3]))],
                "tuple": rng.random() < 0.3}
    if r < 0.95:
        return {"kind": "none"}
    if r < 0.97:
        return {"kind": "mixed"}
    return {"kind": "other", "py": rng.choice(["int", "float", "dict", "set"])}


def _shape(rng):
    arr = rng.choice(["square", "hexagonal"])
    if rng.random() < 0.1:
        return "square", rng.randint(1, 6), 1, 1
    return arr, rng.randint(1, 5), rng.randint(2, 5), rng.choice([1, 1, 2, 3])


def _case(rng):
    arr, nx, ny, nz = _shape(rng)
    return dict(kind="structured", arr=arr, nx=nx, ny=ny, nz=nz, seed=rng.randint(0, 10**6),
                spec=_spec(rng, nx * ny * nz))


def cases(rng, tier):
    n = 320 if tier == "quick" else 5000
    # the requests of the package's own tests and docstrings first
    for arr in ("square", "hexagonal"):
        for sp in (["edge_random_4", "uniform.core.5"], "random4", "uniform+3", ("core", "corner_random_2"),
                   ["corner", "edge"], "all", "edge"):
            spec = ({"kind": "str", "str": sp} if isinstance(sp, str)
                    else {"kind": "strs", "strs": list(sp), "tuple": isinstance(sp, tuple)})
            yield dict(kind="documented", arr=arr, nx=3, ny=3, nz=1, seed=2021, spec=spec)
        yield dict(kind="documented", arr=arr, nx=4, ny=3, nz=1, seed=2021,
                   spec={"kind": "ints", "ints": [0, 4, 10], "tuple": True})
        # index lists with numpy scalars: list(np.linspace(0, 8, 4)), [np.float64(1.5), 2], (np.float64(-0.5), 2),
        # [0, np.float32(8.9)], list(np.where(mask)[0]), [True, 2]
        for items, tup in (([["npfloat64", 0.0], ["npfloat64", 8 / 3], ["npfloat64", 16 / 3], ["npfloat64", 8.0]], False),
                           ([["npfloat64", 1.5], ["int", 2]], False), ([["npfloat64", -0.5], ["int", 2]], True),
                           ([["int", 0], ["npfloat32", 8.9]], False), ([["npint64", 0], ["npint64", 4]], False),
                           ([["bool", True], ["int", 2]], False), ([["float", 2.0]], False)):
            yield dict(kind="documented", arr=arr, nx=3, ny=3, nz=1, seed=2021,
                       spec={"kind": "seq", "items": items, "tuple": tup})
    for _ in range(n):
        yield _case(rng)
    # 'uniform_n' over a whole batch of L vials (constructed only): never more vials than asked, never outside,
    # at least one — every (L, n) with L <= 60 in thorough; in quick the pairs where a fractional stride
    # np.arange(0, L, L/n) overshoots by float end-point rounding, and a sample
    if tier == "quick":
        pairs = [(49, 11), (49, 22), (49, 44), (15, 13), (17, 7), (9, 4), (9, 3), (10, 3), (7, 7), (7, 8), (12, 5), (60, 59)]
        pairs += [(L, n) for L in (5, 16, 23, 36) for n in range(1, L + 2)]
    else:
        pairs = [(L, n) for L in range(1, 61) for n in range(1, L + 2)]
    for L, n in pairs:
        yield dict(kind="sweep", arr="square", nx=L, ny=1, nz=1, seed=1, spec={"kind": "str", "str": f"uniform_{n}"})
    for n in (11, 22, 44, 13):
        yield dict(kind="sweep", arr="square", nx=7, ny=7, nz=1, seed=1, spec={"kind": "str", "str": f"uniform_{n}"})
    # default count int(ceil(0.1*N)) for every N of a range (and some large N)
    # (the model evaluates the exposure vector of the batch, O(N^2): keep N moderate)
    top = 260 if tier == "quick" else 900
    for N in list(range(1, top + 1)) + ([500, 1000] if tier == "quick" else [1000, 1500, 2000, 3000]):
        yield dict(kind="count", arr="square", nx=N, ny=1, nz=1, seed=1, spec={"kind": "str", "str": "random"})


def widen(rng, tier):
    for _ in range(200 if tier == "quick" else 2000):
        c = _case(rng)
        c["spec"] = {"kind": "str", "str": rng.choice(["random_2", "corner_random_1", "random", "edge_random_2"])}
        yield c
