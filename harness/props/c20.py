"""C20 Evaporation physics is monotone, sign-correct and window-limited.

Translator-tied: `regenerate()` rewrites lean/SnowModel/Gen/Evap.lean from the CURRENT
utils.py; the theorems of SnowProofs/Props/C20.lean are rebuilt against it.

Correspondence
  * `utils.vapour_pressure_liquid/solid`, `utils.vapour_flux` on random (T, p, kappa, …)
    against the generated code run at Float in the driver (libm vs numpy, rtol 1e-9);
  * the window logic against REAL paired Snowing runs, VISF and shelf, with random vacuum windows
    (1D; one small 2D pair in the quick tier): the WHOLE VISF run (statistics, time, shelf, every
    temp / ice row of both stages) against the executable run model (Snow.run1DOld / S2D.run) fed
    with the CONFIGURED window and VISF constants; the hand model SnowModel/EvapWindow.lean step by
    step on the top node of every cooling row.
Effects, not calls (predicates on the real output alone): the heat flux actually applied at the top
node is inferred from every pair of consecutive published rows (both stages, calibrated on the shelf
run where it must vanish) - zero outside the configured window, -N_w*dHe with the right sign inside;
rows before the window identical to the shelf run, whole run identical when the window never opens.
A run, constructor, accessor or helper that raises is an observation and then a Failure; rows that
cannot be read step by step (recording stride / step size changed) raise BrokenObservation.
Monitored (evaluated at Float on a 0.01 K grid, no theorem): `triple_point_coincide`,
`p_ice_le_p_liq_below` (the grid monotonicity of both curves is kept as a test of the proved clauses).
"""
from __future__ import annotations

import math
import os
import tempfile

import shim  # noqa: F401
import numpy as np
import yaml

import core
import translate
import snowingutil as su
import snowing2dutil as s2
from core import Failure, f2b, b2f, close

ID = "C20"
TITLE = "Evaporation physics is monotone, sign-correct and window-limited"
LEAN_MODULE = "SnowProofs.Props.C20"
TECHNIQUE = ("Lean 4 proof over a model GENERATED from the source by harness/translate.py "
             "(+ differential check)")
THEOREMS = [
    dict(name="Snow.C20.p_ice_strictMono", clause="vapour pressure over ice increases strictly with T on (0, 400] K", strength="full"),
    dict(name="Snow.C20.p_liq_strictMono", clause="vapour pressure over liquid water increases strictly with T on its whole range of validity [123, 332] K", strength="full"),
    dict(name="Snow.C20.p_liq_strictMono_low", clause="lemma: the same on [123, 235] K (tanh changes sign at 218.8 K)", strength="lemma"),
    dict(name="Snow.C20.p_liq_strictMono_partial", clause="lemma: the same on [235, 332] K", strength="lemma"),
    dict(name="Snow.C20.flux_zero_at_equilibrium", clause="flux is zero at equal pressures and temperatures", strength="full"),
    dict(name="Snow.C20.flux_pos_iff", clause="flux is positive exactly when the surface vapour pressure exceeds the chamber pressure", strength="full"),
    dict(name="Snow.C20.flux_mono_pvap", clause="flux increases strictly with the surface vapour pressure", strength="full"),
    dict(name="Snow.C20.flux_scales_kappa", clause="flux = (2k/(2-k)) sqrt(m/(2 pi k_B)) (p_vap - p_vac)/sqrt(T)", strength="full"),
    dict(name="Snow.C20.flux_strictMono_kappa", clause="flux increases strictly with the evaporation coefficient on (0,1] for a positive driving force", strength="full"),
    dict(name="Snow.C20.qE_eq", clause="q_e = -N_w dHe iff configuration = VISF and t_start*3600 < t < (t_start+t_dur)*3600, else 0", strength="full"),
    dict(name="Snow.C20.no_evap_outside_window", clause="no evaporative term outside the vacuum window or outside VISF; the top ghost value is then the top value", strength="full"),
    dict(name="Snow.C20.visf_step_eq_shelf_outside_window", clause="outside the window the VISF cooling step of the top node is the shelf step", strength="full"),
    dict(name="Snow.C20.visf_eq_shelf_before_window", clause="lemma on an ABSTRACT loop (body an arbitrary function of q_e): a VISF stage and the shelf stage coincide up to the first step inside the window", strength="lemma (abstract loop; the run-level clause is visf_run1D_eq_shelf*)"),
    dict(name="Snow.C20.visf_eq_shelf_empty_window", clause="lemma on the abstract loop: empty window, whole stage", strength="lemma (abstract loop; the run-level clause is visf_run1D_eq_shelf*)"),
    dict(name="Snow.C20.window_model_is_1D_model", clause="link: the evaporative flux Snow.qEvap of the executable 0D/1D model IS the window model's q_e (same window test, same sign), every numeric instance", strength="full"),
    dict(name="Snow.C20.window_model_is_2D_model", clause="link: S2D.qEvap of the executable 2D model IS the window model's q_e column by column, at the model's own vapour flux (EvapLink.flux2D: Evap2D.vapourFlux at pSolid/pLiquid of the top node)", strength="full"),
    dict(name="Snow.C20.window_model_qE", clause="the q_e of the window theorems is the same qEWith at the generated flux", strength="full"),
    dict(name="Snow.C20.qEWith_zero_outside", clause="q_e (any flux) is 0 outside VISF / outside the window", strength="full"),
    dict(name="Snow.C20.visf_run1D_eq_shelf_sampled", clause="REAL 1D model: a VISF run whose window is met at none of the SAMPLED step times (dt*i; dt*iEnd + dt*i after nucleation at iEnd) equals the shelf run - exception, statistics, every history row of run1DOn - every numeric instance", strength="full"),
    dict(name="Snow.C20.visf_run1D_eq_shelf_window_beyond", clause="REAL 1D model: window start beyond the last sampled time => whole VISF run = shelf run", strength="full"),
    dict(name="Snow.C20.visf_run1D_eq_shelf", clause="corollary: window met at NO real time (for a VISF input this means an empty window)", strength="lemma"),
    dict(name="Snow.C20.visf_run1D_eq_shelf_empty_window", clause="REAL 1D model: t_vac_duration <= 0 => run1D(VISF) = run1D(shelf)", strength="full"),
    dict(name="Snow.C20.visf_cool1D_eq_shelf_before_window", clause="REAL 1D model: while dt*i <= t_vac_start*3600 the cooling loop (stop index, field, hazard, saved rows) is that of the shelf run - identical up to step n", strength="lemma"),
    dict(name="Snow.C20.visf_run1D_eq_shelf_before_window_both_stages", clause="REAL 1D model, window opening after nucleation (e.g. during solidification): shelf run nucleates at step iEnd, first m solidification step times <= window start  =>  the VISF run has the same cooling stage (nucleation step, field, hazard, every saved row), the same solidification-loop state after m iterations (field, ice, saved rows, bookkeeping), and those saved rows are the first rows saved by the solidification LOOP of the whole VISF run (loop states; published rows: visf_run1D_hist_eq_shelf_before_window)", strength="full"),
    dict(name="Snow.C20.run1DOn_published_history", clause="how run1DOn builds Result1D.hist when the cooling loop nucleates at iEnd in state s: none if the run raises (row outside its buffer / solidification not completed), else cooling rows ++ post-nucleation row ++ the rows saved by the full-length solidification loop (solidAfter) except the last", strength="full"),
    dict(name="Snow.C20.visf_run1D_hist_eq_shelf_before_window", clause="REAL 1D model, PUBLISHED rows, window opening after nucleation: same hypotheses as the previous theorem; whenever the VISF run and the shelf run both publish a history (hist = some; nothing is claimed for a run that raises) the two histories start with the same rows: every cooling row, the post-nucleation row, the rows saved in the first m solidification iterations except the last of them", strength="full"),
    dict(name="Snow.C20.fluxN_zero_at_equilibrium", clause="flux laws for ANY value of pi (Gen.FU.N_w, the run models' function): zero at equilibrium", strength="full"),
    dict(name="Snow.C20.fluxN_pos_iff", clause="... positive iff p_vap > p_vac (pi > 0)", strength="full"),
    dict(name="Snow.C20.fluxN_mono_pvap", clause="... strictly increasing in p_vap", strength="full"),
    dict(name="Snow.C20.fluxN_scales_kappa", clause="... closed form in kappa", strength="full"),
    dict(name="Snow.C20.fluxN_strictMono_kappa", clause="... strictly increasing in kappa on (0,1]", strength="full"),
    dict(name="Snow.C20.run_model_flux", clause="Evap.vapourFlux (0D/1D), Evap2D.vapourFlux pi (2D) and Gen.vapour_flux are Gen.FU.N_w at pi = piDouble / the input pi / Real.pi", strength="full"),
    dict(name="Snow.C20.evap_cools_iff_1D", clause="REAL 1D model: inside the window Snow.qEvap <= 0 iff p_vap >= p_vac (hypotheses: VISF input, 0 < kappa <= 1, 0 < m_water, 0 < k_B, 0 < dHe, 0 < T_top)", strength="full"),
    dict(name="Snow.C20.evap_cools_iff", clause="inside the window q_e <= 0 iff p_vap >= p_vac (T_l = T_v > 0)", strength="full"),
    dict(name="monitored:triple_point_coincide", clause="the two curves coincide at the triple point (273.16 K): NO theorem, evaluated at Float on every run (relative gap <= 1e-6)", strength="monitored"),
    dict(name="Snow.C20.p_ice_lt_p_liq_between", clause="monotone interpolation: p_ice(b) < p_liq(a), 123 <= a <= b <= 332  =>  p_ice < p_liq on the whole of [a,b] (from the two monotonicity theorems); turns the grid evaluation below into a statement about every real T of a grid cell", strength="conditional (the premise is evaluated at Float on the grid, not proved)"),
    dict(name="monitored:p_ice_le_p_liq_below", clause="p_ice <= p_liq below the triple point: the numeric premise of p_ice_lt_p_liq_between (a fact about exp/log/tanh at given reals) has NO proof; it is evaluated at Float (relative margin >= 3e-4 against 1e-6 required) for every cell of the 0.01 K grid 123-273.05 K on every run, which with the theorem covers every real T in [123, 273.05] K; on (273.05, 273.15] K the curves are closer than one grid step and only the pointwise grid comparison is made", strength="monitored"),
    dict(name="monitored:visf_eq_shelf_2D", clause="2D runs before / without the window: NO run-level theorem (the 2D model has the q_e link and the q_e statement ties only); one small real 2D pair (six in the thorough tier) is run end to end and compared on every run (rows before the window, inferred top flux at every step, whole run against the 2D model)", strength="monitored"),
    dict(name="Snow.C20.nonvacuous", clause="hypotheses are satisfiable (default VISF parameters)", strength="nonvacuity"),
]
TRUSTED = [
    "Lean 4.33 kernel; axioms per theorem listed under coverage.axioms",
    "theorems are over the reals: IEEE rounding is not modelled",
    "the translator harness/translate.py (Python ast -> Lean; numpy semantics for utils.py: `/` never raises)",
    "hand-written window model SnowModel/EvapWindow.lean (top boundary of the 1D loops), tied by this differential check",
    "libm exp/log/tanh/sqrt/pow vs numpy ufuncs agree to rtol 1e-9",
]
ASSUMPTIONS = [
    "evaporation coefficient in (0,1], T > 0, m_water, k_B, dHe > 0 (flux theorems)",
    "triple_point_coincide and p_ice_le_p_liq_below are numeric facts about exp/log at specific reals: NOT proved, "
    "evaluated at Float on a 0.01 K grid on every run (monitored test clause)",
    "run-level clause 'outside the window a VISF run is identical to the shelf run': proved on the REAL 1D model "
    "(run1DOn) when the window is met at none of the sampled step times dt*i / dt*iEnd + dt*i (so also for a window "
    "beyond the process or between two samples) - visf_run1D_eq_shelf_sampled, _window_beyond, _empty_window; the "
    "prefix before a window that does open is proved for both stages at the level of the loop states and their saved "
    "rows (visf_run1D_eq_shelf_before_window_both_stages: cooling stage complete, first m solidification iterations, "
    "saved rows = first rows saved by the whole run's loop) and on the published rows (run1DOn_published_history: how "
    "Result1D.hist is built; visf_run1D_hist_eq_shelf_before_window: if both runs publish a history, both start "
    "with the cooling rows, the post-nucleation row and the rows of the first m solidification iterations but the "
    "last; nothing is claimed for a run that raises); "
    "the 2D runs have no run-level theorem (monitored: a small real 2D pair is run end to end and compared) - for 2D the q_e link and the ties of the whole "
    "`if window: q_e = ... else: q_e = 0` statements are proved",
    "the abstract-loop theorems (runStage, body an arbitrary function of q_e) are kept as lemmas",
    "the flux laws are proved for Gen.FU.N_w with ANY positive value of pi; the run models' flux functions are that "
    "definition at pi = Evap.piDouble (0D/1D) resp. the input pi (2D), for every numeric instance (GenTie/Evap)",
    "the programmes of the paired runs nucleate and solidify within t_tot on the unchanged code: a run, constructor "
    "or accessor that raises is reported as a failure (clause unexpected_raise), never skipped",
    "the inferred top flux (inverse of the top-node update, snowing2dutil._top_flux) needs every step recorded; this is "
    "verified on the rows (spacing = the loop's step recomputed from the constants) and on the shelf run (inferred "
    "flux zero); if either fails the check reports a broken observation instead of skipping the clause",
    "real runs use a taller vial (height 0.03-0.04 m) and fast programs so that every step is recorded",
]
RULE = ("(a) batches of random (T, p_vac, p_vap, kappa, m, k_B, T_l, T_v) incl. T_l = T_v, p_vap = p_vac, kappa = 1; "
        "(b) the 0.01 K grid 123-332 K for the monitored numeric clauses; (c) paired real 1D Snowing runs VISF vs "
        "shelf with random vacuum windows (before nucleation, straddling it, during solidification, beyond t_tot, "
        "empty, start 0), second runs of a re-pointed object, objects built after another object, the same object "
        "run twice without any edit and a sequential Nrep = 3 study on one object (every run / repetition against the "
        "model with the draw of its seed, the published arrays against the flux predicate); (d) a small 2D "
        "pair (height 0.01 m, diameter 0.04 m, ~5000 steps) with the window inside the cooling stage or straddling "
        "nucleation; a run case is non-trivial when both runs complete (a run that raises is a failure)")
EXPLANATION = ("Lean theorems over the reals about the generated utils formulas and the hand window model + "
               "differential check against utils.* and real Snowing runs; triple point coincidence and p_ice <= p_liq "
               "below it are a monitored TEST on a grid, not a theorem")
PARALLEL = True
LEVEL_TEXT = (
    "Lean 4 theorems (exact real arithmetic) about Lean definitions GENERATED from utils.py by harness/translate.py on "
    "every run (vapour_pressure_liquid, vapour_pressure_solid, vapour_flux) and about a hand-written model of the top "
    "boundary of the 1D loops; the generated text is rebuilt and the theorems re-checked on every run, the window "
    "model is tied to /repo by a differential check against real paired VISF/shelf runs (1D: whole run against the "
    "run model with the configured window and the top node step by step against the window model; one small 2D "
    "pair end to end; the flux actually applied at the top node is inferred from the published rows at every step "
    "of both stages). Proved in full: ice curve strictly increasing on (0,400] K and liquid curve strictly "
    "increasing on its whole validity range [123,332] K; flux zero at equilibrium, "
    "positive iff p_vap > p_vac, strictly increasing in p_vap, closed form and strict monotonicity in kappa on (0,1]; "
    "q_e is -N_w dHe exactly for VISF strictly inside the window and 0 otherwise; outside the window the VISF step of "
    "the top node equals the shelf step; inside it q_e <= 0 iff p_vap >= p_vac (also on the real 1D model's qEvap); the flux "
    "laws hold for any positive value of pi, hence for the run models' own flux functions; the run models' qEvap (1D, "
    "2D) are this q_e at their flux, and on the real 1D model a VISF run whose window is met at none of the sampled "
    "step times equals the shelf run. The prefix before a window that opens later is proved for BOTH stages on the real 1D model (same cooling "
    "stage, same solidification-loop state and saved rows up to the window; these rows are the first rows of the "
    "whole run's solidification history). p_ice < p_liq on every real T of an interval follows from one comparison "
    "of its end points (p_ice_lt_p_liq_between, proved from the two monotonicity theorems); the end-point "
    "comparisons themselves are numeric facts evaluated at Float on every cell of the 0.01 K grid 123-273.05 K. "
    "NOT proved, only evaluated on every run (test): those end-point comparisons, the pointwise comparison on "
    "(273.05, 273.15] K, coincidence of the two curves at the triple point (rel. 1e-6); 2D run-level identity.")


# the hand transcription of the two correlations used by the Snowing 1D/2D models (SnowModel/EvapFormulas.lean)
# is proved equal to the generated text, so those models inherit the regeneration tie
THEOREMS = THEOREMS + [
    dict(name="Snow.GenTie.Evap.vapour_pressure_liquid", clause="hand transcription Evap.vapourPressureLiquid (used by "
         "the Snowing 1D/2D models) = generated vapour_pressure_liquid, every numeric instance", strength="tie"),
    dict(name="Snow.GenTie.Evap.vapour_pressure_solid", clause="hand transcription Evap.vapourPressureSolid = generated "
         "vapour_pressure_solid, every numeric instance", strength="tie"),
]
# the `q_e = -N_w * dHe` statements of the four Snowing loops (1D/2D, cooling/solidification) are re-derived from the
# source and proved equal to the run models' qEvap inside the window: sign-correctness at every call site
import gentie  # noqa: E402
THEOREMS = THEOREMS + [
    dict(name="Snow.GenTie.S1D.q_e", clause="1D cooling loop: generated `q_e = -N_w*dHe` = the model's qEvap inside the window", strength="tie"),
    dict(name="Snow.GenTie.S1D.solid_q_e", clause="1D solidification loop: generated `q_e = -N_w*dHe` = the model's qEvap inside the window", strength="tie"),
    dict(name="Snow.GenTie.S2D.q_e", clause="2D cooling loop: generated `q_e = -N_w*dHe` with N_w := the model's vapour flux at the top node (S2D fluxAt) = S2D.qEvap inside the window", strength="tie"),
    dict(name="Snow.GenTie.S2D.solid_q_e", clause="2D solidification loop: generated `q_e = -N_w*dHe` with N_w := the model's vapour flux at the top node = S2D.qEvap inside the window", strength="tie"),
    # the WHOLE statement `if (window condition): N_w = vapour_flux(…); q_e = -N_w*dHe  else: q_e = 0` of each loop,
    # extracted as one conditional expression (window test, helper-call arguments, flux formula and the zero branch)
    dict(name="Snow.GenTie.S1D.cool_q_e_if", clause="1D cooling loop: generated `if dt*i in window: q_e = -vapour_flux(kappa, m_water, k_B, p_vac, p_liq(T_top), T_top, T_top)*dHe else: q_e = 0` = the model's qEvap (VISF)", strength="tie"),
    dict(name="Snow.GenTie.S1D.solid_q_e_if", clause="1D solidification loop: generated `if t_nuc+dt*i in window: q_e = -vapour_flux(…, p_ice(T_top), …)*dHe else: q_e = 0` = the model's qEvap (VISF)", strength="tie"),
    dict(name="Snow.GenTie.S1D.q_e_call_sites", clause="1D cooling stage: the model's step function passes exactly this qEvap (liquid curve, time dt*i, top node) to the top boundary node", strength="tie"),
    dict(name="Snow.GenTie.S2D.cool_q_e_if", clause="2D cooling loop: generated whole `if window … else: q_e = 0` statement (per radial node) = S2D.qEvap (VISF, flag coolingSolidPvap = false: the liquid curve in the cooling stage, i.e. the repaired code = current /repo; with the pre-repair flag the model uses the ice curve and this tie does not apply)", strength="tie"),
    dict(name="Snow.GenTie.S2D.solid_q_e_if", clause="2D solidification loop: generated whole `if window … else: q_e = 0` statement = S2D.qEvap (VISF)", strength="tie"),
]
extra_lean_targets = list(globals().get("extra_lean_targets", [])) + [
    "SnowProofs.Props.GenTie.Evap", gentie.module("1D"), gentie.module("2D")]


def regenerate():
    translate.regenerate_evap()
    gentie.regenerate("Utils")
    gentie.regenerate("1D")
    gentie.regenerate("2D")


# ---------------------------------------------------------------------------
# implementation side
# ---------------------------------------------------------------------------
def _utils():
    from ethz_snow import utils
    return utils


def _grid():
    n = int(round((332.0 - 123.0) / 0.01))
    return [123.0 + 0.01 * i for i in range(n + 1)]


class BrokenObservation(Exception):
    """the harness can no longer observe the real code the way the clause needs (row layout, step size, an
    accessor): raised instead of skipping the clause, so that runcheck reports a broken correspondence"""


def _cfg_1d(case, conf, win=None):
    cfg = {"snowing_parameters": {"dimensionality": "spatial_1D", "configuration": conf},
           "vial": {"geometry": {"height": case["height"]}},
           "VISF": {"t_vac_start": (win or case)["t_start"], "t_vac_duration": (win or case)["t_dur"]}}
    for kk in ("kappa", "p_vac"):
        if (win or case).get(kk) is not None:
            cfg["VISF"][kk] = (win or case)[kk]
    return cfg


def _tmp_yaml(cfg):
    f = tempfile.NamedTemporaryFile("w", suffix=".yaml", delete=False)
    yaml.safe_dump(cfg, f)
    f.close()
    return f.name


def _published(S):
    """what a finished run publishes through the PUBLIC accessors (numpy arrays; time in hours as published)"""
    table = su._table(S)
    if not isinstance(table, list) or not table:
        raise BrokenObservation(f"`.results` of a finished run is not a table of rows: {table}")
    # Nrep > 1 (sequential study): one row per repetition; the arrays are those of the LAST repetition
    return {"stats": table[-1], "table": table,
            "hours": np.asarray(S.time, float), "temp": np.asarray(S.temp, float),
            "ice": np.asarray(S.iceMassFraction, float), "shelf": np.asarray(S.shelfTemp, float)}


def _run_pair(case):
    """the VISF run and the shelf run of one 1D case; every exception of the real code (constructor, run, accessors)
    is an OBSERVATION: {"raise": class, "stage": "init" | "first-run" | "run" | "publish"}"""
    from ethz_snow.snowing import Snowing
    from ethz_snow.operatingConditions import OperatingConditions

    out = {}
    k = {"int": 0, "ext": 0, "s0": case["s0"], "s_sigma_rel": 0}
    for conf in ("VISF", "shelf"):
        cfg = _cfg_1d(case, conf)
        if case.get("omit_visf"):
            del cfg["VISF"]          # the object relies on the packaged defaults for every VISF entry
        files = []
        rec = {"raise": None, "stage": None, "S": None}
        out[conf] = rec
        try:
            if case.get("other") and conf == "VISF":
                # ANOTHER object built earlier in the same process from a file overriding the VISF entries: it must
                # not change what a later object gets as defaults
                files.append(_tmp_yaml({"snowing_parameters": {"dimensionality": "spatial_1D", "configuration": "VISF"},
                                        "VISF": dict(case["other"])}))
                rec["stage"] = "init-other"
                Snowing(k={"int": 0, "ext": 0, "s0": 50, "s_sigma_rel": 0}, configPath=files[-1])
            files.append(_tmp_yaml(cfg))
            path = files[-1]
            rec["stage"] = "init"
            op = OperatingConditions(t_tot=case["t_tot"], cooling={"rate": case["rate"], "start": 20, "end": -50})
            prev = case.get("prev") if conf == "VISF" else None
            nrep = int(case.get("nrep") or 1)
            if prev is None:
                S = Snowing(k=dict(k), opcond=op, configPath=path, Nrep=nrep)
                if case.get("rerun") and conf == "VISF":
                    # object HISTORY without any edit: plain `S.run(); S.run()` - the observed run is the second one
                    rec["stage"] = "first-run"
                    S.run()
            else:
                # object HISTORY: a first run with another VISF configuration (window / kappa / p_vac), then the
                # configuration file is re-pointed on the USED object (`S.configPath = ...`) and it runs again; the
                # observed run is the second one, and it must be the run of the configuration it now shows
                files.append(_tmp_yaml(_cfg_1d(case, "VISF", prev)))
                S = Snowing(k=dict(k), opcond=op, configPath=files[-1])
                rec["stage"] = "first-run"
                S.run()
                rec["stage"] = "reconfigure"
                S.configPath = path
            rec["S"] = S
            rec["stage"] = "run"
            if nrep > 1:
                S.run(how="sequential")      # repetitions 0..nrep-1 on the one object, seeds 0..nrep-1
            else:
                S.run()
            rec["stage"] = "publish"
            rec.update(_published(S))
            rec["stage"] = None
        except BrokenObservation:
            raise
        except Exception as e:
            rec["raise"] = core.exc_class(e)
        finally:
            for fn in files:
                os.unlink(fn)
    return out


class _Stop(Exception):
    pass


def _first_call(dim):
    """which vapour-pressure correlation the FIRST cooling step (all liquid, +20 C) of a VISF run calls;
    the run is aborted at that call, so this costs milliseconds also in 2D"""
    from ethz_snow.snowing import Snowing
    from ethz_snow.operatingConditions import OperatingConditions
    import ethz_snow.snowing as _sn

    cfg = {"snowing_parameters": {"dimensionality": dim, "configuration": "VISF"},
           "VISF": {"t_vac_start": 0.0, "t_vac_duration": 1.0}}
    f = tempfile.NamedTemporaryFile("w", suffix=".yaml", delete=False)
    yaml.safe_dump(cfg, f)
    f.close()
    U = _sn.Utils
    saved = (U.vapour_pressure_liquid, U.vapour_pressure_solid)

    def mk(n):
        def g(T):
            raise _Stop(n)
        return g
    U.vapour_pressure_liquid, U.vapour_pressure_solid = mk("liquid"), mk("solid")
    try:
        S = Snowing(k={"int": 0, "ext": 0, "s0": 50, "s_sigma_rel": 0},
                    opcond=OperatingConditions(t_tot=3600, cooling={"rate": 0.5, "start": 20, "end": -50}),
                    configPath=f.name)
        try:
            S.run()
            return "none"
        except _Stop as e:
            return str(e)
        except Exception as e:
            return "raise:" + core.exc_class(e)
    finally:
        U.vapour_pressure_liquid, U.vapour_pressure_solid = saved
        os.unlink(f.name)


def _inuc(run):
    """index of the post-nucleation row = the first row with ice anywhere (len(rows) if none)"""
    ice = run["ice"]
    n = ice.shape[0]
    has = np.nonzero(ice.reshape(n, -1).max(axis=1) > 0)[0]
    return int(has[0]) if len(has) else n


def _pair_summary(V, Sh):
    """row-by-row comparison of a VISF run with the shelf run of the same programme"""
    a_t, b_t = V["hours"] * 3600.0, Sh["hours"] * 3600.0
    a, b = V["temp"], Sh["temp"]
    n = min(len(a_t), len(b_t))
    same = (a_t[:n] == b_t[:n]) & np.all(a[:n].reshape(n, -1) == b[:n].reshape(n, -1), axis=1) \
        & np.all(V["ice"][:n].reshape(n, -1) == Sh["ice"][:n].reshape(n, -1), axis=1) \
        & (V["shelf"][:n] == Sh["shelf"][:n])
    bad = np.nonzero(~same)[0]
    fd = int(bad[0]) if len(bad) else None
    pair = {"len_visf": int(len(a_t)), "len_shelf": int(len(b_t)), "first_diff": fd,
            "first_diff_time": (float(a_t[fd]) if fd is not None else None),
            "first_diff_time_shelf": (float(b_t[fd]) if fd is not None else None),
            "identical": bool(fd is None and len(a_t) == len(b_t)),
            "ice_identical": bool(V["ice"].shape == Sh["ice"].shape and np.array_equal(V["ice"], Sh["ice"])),
            "stats_identical": bool(V["stats"] == Sh["stats"])}
    if fd is not None:
        pair["diff_row_visf"] = [float(x) for x in a[fd].reshape(-1)]
        pair["diff_row_shelf"] = [float(x) for x in b[fd].reshape(-1)]
        pair["prev_row"] = [float(x) for x in a[fd - 1].reshape(-1)] if fd > 0 else None
    return pair


CONST_1D = ("p_vac", "kappa", "Dh_evaporation", "m_water", "k_B", "t_vac_start", "t_vac_duration", "height")


def _case_2d(case, conf):
    c = s2._base(conf, case["height"], case["diameter"], case["K_shelf"], case["t_tot"], outStride=case["outStride"])
    if conf == "VISF":
        c["visf"] = dict(t_vac_start=case["t_start"], t_vac_duration=case["t_dur"])
        for kk in ("kappa", "p_vac"):
            if case.get(kk) is not None:
                c["visf"][kk] = case[kk]
    return c


def _run_pair_2d(case):
    out = {}
    for conf in ("VISF", "shelf"):
        r = s2.run_real_full(_case_2d(case, conf))
        if not r["raise"]:
            try:
                r["hours"] = r["time"]
                r["stats"] = [None if x is None else float(x) for x in r["stats"]]
                r["const"] = {k_: (v if isinstance(v, str) else float(v)) for k_, v in r["const"].items()
                              if isinstance(v, (str, int, float, np.floating, np.integer)) and not isinstance(v, bool)}
            except Exception as e:
                r = {"raise": core.exc_class(e), "stage": "publish"}
        r.pop("S", None)
        out[conf] = r
    return out


def run_impl(case):
    k = case["kind"]
    if k in ("utils", "grid"):
        # every exception of the real helpers is an observation (mapped to a Failure by `predicates`)
        try:
            U = _utils()
            if k == "utils":
                T = np.array(case["T"], dtype=float)
                obs = {"raise": None,
                       "liquid": [float(x) for x in U.vapour_pressure_liquid(T)],
                       "solid": [float(x) for x in U.vapour_pressure_solid(T)]}
                fl = []
                for a in case["flux"]:
                    fl.append(float(U.vapour_flux(*[np.float64(x) for x in a])))
                obs["flux"] = fl
                return obs
            T = np.array(_grid())
            pl = U.vapour_pressure_liquid(T)
            ps = U.vapour_pressure_solid(T)
            return {"raise": None, "liquid": [float(x) for x in pl], "solid": [float(x) for x in ps],
                    "triple": [float(U.vapour_pressure_liquid(np.float64(273.16))),
                               float(U.vapour_pressure_solid(np.float64(273.16)))]}
        except Exception as e:
            return {"raise": core.exc_class(e), "stage": "utils"}
    if k == "correlation":
        return {"raise": None, "first": {d: _first_call(d) for d in ("spatial_1D", "spatial_2D")}}
    if k in ("window", "window2d"):
        pair = _run_pair(case) if k == "window" else _run_pair_2d(case)
        V, Sh = pair["VISF"], pair["shelf"]
        obs = {"raise": None, "runs": {c: pair[c]["raise"] for c in ("VISF", "shelf")},
               "stages": {c: pair[c].get("stage") for c in ("VISF", "shelf")}}
        if k == "window":
            for c in ("VISF", "shelf"):
                S = pair[c].pop("S", None)
                if S is not None and pair[c]["raise"] is None:
                    try:
                        pair[c]["const"] = {kk: (v if isinstance(v, str) else float(v)) for kk, v in S.const.items()
                                            if isinstance(v, (str, int, float, np.floating, np.integer))
                                            and not isinstance(v, bool)}
                    except Exception as e:
                        pair[c]["raise"], pair[c]["stage"] = core.exc_class(e), "publish"
                        obs["runs"][c], obs["stages"][c] = pair[c]["raise"], "publish"
        if V["raise"] is None:
            obs["const"] = V["const"]
            obs["visf"] = {kk: V[kk] for kk in ("hours", "temp", "ice", "shelf", "stats") + (("table",) if "table" in V else ())}
            obs["visf"]["inuc"] = _inuc(V)
        if Sh["raise"] is None:
            obs["shelf"] = {kk: Sh[kk] for kk in ("hours", "temp", "ice", "shelf", "stats")}
            obs["shelf"]["inuc"] = _inuc(Sh)
            obs["shelf_const"] = Sh["const"]
        if V["raise"] is None and Sh["raise"] is None:
            obs["pair"] = _pair_summary(V, Sh)
        return obs
    raise ValueError("unknown case kind " + str(k))


# ---------------------------------------------------------------------------
# model side
# ---------------------------------------------------------------------------
def _evap(drv, fn, T):
    r = drv.call({"op": "evap", "fn": fn, "T": [f2b(x) for x in T]})
    if "error" in r:
        raise RuntimeError(r["error"])
    return [b2f(x) for x in r["val"]]


def _window(case):
    """the CONFIGURED vacuum window in seconds (what the YAML file says, not what `const` returned)"""
    return float(case["t_start"]) * 3600, (float(case["t_start"]) + float(case["t_dur"])) * 3600


_DFLT = {}


def _default_visf():
    """the VISF section of the packaged default file, read by the harness itself (fresh parse)"""
    p = core.REPO / "src" / "ethz_snow" / "config" / "snowConfig_default.yaml"
    if str(p) not in _DFLT:
        with open(p) as f:
            _DFLT[str(p)] = yaml.load(f, Loader=yaml.FullLoader)["VISF"]
    return _DFLT[str(p)]


def _configured(case):
    """the VISF constants the run MUST use: what the case's YAML file says, else the packaged default (read by the
    harness itself) - never what the object's `const` returned"""
    d = _default_visf()
    out = {kk: float(case[kk]) if case.get(kk) is not None else float(d[kk])
           for kk in ("p_vac", "kappa", "Dh_evaporation", "m_water")}
    out["t_vac_start"], out["t_vac_duration"] = float(case["t_start"]), float(case["t_dur"])
    return out


def _const_configured(case, const):
    c = dict(const)
    c.update(_configured(case))
    return c


def _steps(case, const, run, what):
    """the code's time step recomputed from the constants (same expression as the loop: Nz = 30, Nr = 15, CFL 0.4)
    and the check that the recorded rows are exactly one such step apart (all but the two rows of the nucleation
    instant).  A mismatch means the harness cannot read the rows as `state after step i`: BrokenObservation - the
    step-wise clauses are never skipped silently."""
    dt = s2.code_dt(const)
    t = run["hours"] * 3600.0
    inuc = run["inuc"]
    n = len(t)
    if n < 4 or not (1 <= inuc < n):
        raise BrokenObservation(f"{what}: {n} published rows, post-nucleation row {inuc}: no step-wise reading possible")
    d = np.diff(t)
    want = np.full(n - 1, dt)
    want[inuc - 1] = 0.0                     # row at nucleation -> post-nucleation row (same instant)
    if inuc < n - 1:
        want[inuc] = 0.0                     # post-nucleation row -> first solidification step (label t_nuc + dt*0)
    bad = np.nonzero(np.abs(d - want) > 1e-9 * np.maximum(dt, t[1:]))[0]
    if len(bad):
        j = int(bad[0])
        raise BrokenObservation(f"{what}: rows {j}->{j + 1} are {d[j]!r} s apart, the loop's step recomputed from the "
                                f"constants is {want[j]!r} s (recording stride or step formula changed): the rows "
                                "cannot be read step by step")
    return dt, t


def _top_below(run, two_d):
    T = run["temp"] + 273.15
    if two_d:
        return T[:, 29, 0], T[:, 28, 0]
    return T[:, -1], T[:, -2]


def run_model(drv, case, impl=None):
    k = case["kind"]
    if k in ("utils", "grid") and impl is not None and impl.get("raise"):
        return {"raise": None}
    if k == "utils":
        out = {"raise": None, "liquid": _evap(drv, "liquid", case["T"]), "solid": _evap(drv, "solid", case["T"])}
        r = drv.call({"op": "evap", "fn": "flux", "args": [[f2b(x) for x in a] for a in case["flux"]]})
        if "error" in r:
            raise RuntimeError(r["error"])
        out["flux"] = [b2f(x) for x in r["val"]]
        return out
    if k == "grid":
        T = _grid()
        return {"raise": None, "liquid": _evap(drv, "liquid", T), "solid": _evap(drv, "solid", T),
                "triple": [_evap(drv, "liquid", [273.16])[0], _evap(drv, "solid", [273.16])[0]]}
    if k == "correlation":
        # hand model EvapWindow.pVap: the cooling stage (liquid product) uses the liquid curve
        return {"raise": None, "first": {"spatial_1D": "liquid"}}
    if k == "window":
        # models never raise in these programmes; a run of the real code that raised is reported by `predicates`
        if "visf" not in impl:
            return {"raise": None, "skip": True}
        const = impl["const"]
        out = {"raise": None}
        # (1) the WHOLE run on the executable 1D model (Snow.run1DOld, the model of the C08/C13 theorems and of
        # visf_run1D_eq_shelf*), with the CONFIGURED VISF constants
        c1 = dict(dim="1D", k_s0=case["s0"], t_tot=case["t_tot"], start=20, stop=-50, rate=case["rate"], holds=None,
                  cnTemp=None)
        rec = {"const": {kk: const[kk] for kk in su.CONST_KEYS + su.CONST_SPATIAL if kk in const},
               "xi": su.recorded_xi(), "visf": _configured(case)}
        # (a sequential study of Nrep repetitions: repetition i is the single run with the draw of seed i; the
        # published arrays are those of the last repetition, the results table has one row per repetition)
        nrep = int(case.get("nrep") or 1)
        reps = [su.decode_model(drv.call(su.model_request(
            c1, rec, Frand=su.recorded_frand(i), old=True,
            row_stride=(int(case.get("row_stride", 1)) if i == nrep - 1 else 10 ** 9)))) for i in range(nrep)]
        out["run"] = reps[-1]
        out["reps"] = [{"raise": r["raise"], "stats": r["stats"]} for r in reps]
        # (2) the hand window model (EvapWindow.lean, the model of the q_e theorems), step by step on EVERY cooling row
        try:
            out["steps"] = _model_steps(drv, case, impl)
        except BrokenObservation as e:
            out["steps"] = {"broken": str(e)}
        return out
    if k == "window2d":
        if "visf" not in impl:
            return {"raise": None, "skip": True}
        c2 = _case_2d(case, "VISF")
        const = _const_configured(case, impl["const"])
        return {"raise": None, "run": s2.run_model(drv, c2, flags=None, const=const)}
    raise ValueError(k)


def _model_steps(drv, case, impl):
    v = impl["visf"]
    c = _const_configured(case, impl["const"])
    dt, t = _steps(case, impl["const"], v, "VISF run")
    dz = c["height"] / 30
    lam = c["solid_fraction"] * c["lambda_s"] + (1 - c["solid_fraction"]) * c["lambda_w"]
    diff = lam / (c["cp_solution"] * c["rho_l"])
    top, below = _top_below(v, False)
    n = v["inuc"] - 1                         # rows 0..n are the states after cooling steps 0..n
    req = {"op": "evapWindow", "visf": True, "stage": "cooling", "t0": f2b(0.0),
           "p_vac": f2b(c["p_vac"]), "kappa": f2b(c["kappa"]), "dHe": f2b(c["Dh_evaporation"]),
           "m_water": f2b(c["m_water"]), "k_B": f2b(c["k_B"]),
           "t_vac_start": f2b(c["t_vac_start"]), "t_vac_duration": f2b(c["t_vac_duration"]),
           "dt": f2b(dt), "dz": f2b(dz), "lambda_eff": f2b(lam), "diffusivity": f2b(diff),
           # row r is the state BEFORE step r+1
           "i": list(range(1, n + 1)),
           "T_top": [f2b(float(x)) for x in top[:n]],
           "T_below": [f2b(float(x)) for x in below[:n]]}
    r = drv.call(req)
    if "error" in r:
        raise RuntimeError(r["error"])
    return {"inWindow": r["inWindow"], "q_e": [b2f(x) for x in r["q_e"]], "next": [b2f(x) for x in r["T_top_next"]],
            "dt": dt, "n": n}


def compare(case, impl, model):
    dis = []
    k = case["kind"]
    if k in ("utils", "grid"):
        if impl.get("raise"):
            return dis          # reported by `predicates` (the helpers are total on these inputs)
        for nm in ("liquid", "solid", "flux", "triple"):
            if nm not in impl:
                continue
            a, b = impl[nm], model[nm]
            if len(a) != len(b):
                dis.append(f"{nm}: lengths {len(a)} vs {len(b)}")
                continue
            for i, (x, y) in enumerate(zip(a, b)):
                tol = 1e-9 * max(abs(x), abs(y))
                if nm == "flux":
                    # the difference of two nearly equal terms: ulp noise is relative to the terms
                    kappa, m, kB, pvac, pvap, Tl, Tv = case["flux"][i]
                    tol += 1e-13 * (2 * kappa / (2 - kappa)) * math.sqrt(m / (2 * math.pi * kB)) * \
                        (abs(pvap) / math.sqrt(Tl) + abs(pvac) / math.sqrt(Tv))
                if not (abs(x - y) <= tol) and not (math.isnan(x) and math.isnan(y)):
                    dis.append(f"{nm}[{i}]: impl {x!r} vs generated model {y!r}")
                    break
        return dis
    if k == "correlation":
        if impl["first"]["spatial_1D"] != model["first"]["spatial_1D"]:
            dis.append(f"1D cooling stage calls the {impl['first']['spatial_1D']} curve, the window model the liquid curve")
        return dis
    if k == "window":
        if "visf" not in impl:
            return dis          # the VISF run raised: `predicates` reports it (unexpected raise = Failure)
        v = impl["visf"]
        lo, hi = _window(case)
        # (1) whole run, every array, both stages (temp / ice on the rows the model sent back: every row in the
        # thorough tier, every third row + the last in the quick tier; time / shelf / statistics always in full)
        m = model["run"]
        if m["raise"]:
            dis.append(f"the 1D model raises {m['raise']} ({m.get('stage')}) where the real VISF run completes")
            return dis
        if len(v["table"]) != len(model["reps"]):
            dis.append(f"results table: real study {len(v['table'])} rows vs model {len(model['reps'])} repetitions")
        for i, (row, mr) in enumerate(zip(v["table"], model["reps"])):
            if mr["raise"]:
                dis.append(f"repetition {i}: the 1D model raises {mr['raise']} where the real study completes")
                continue
            for key, val in mr["stats"].items():
                if not close(row.get(key), val):
                    dis.append(f"results[{key}] of run/repetition {i}: real VISF run {row.get(key)!r} vs model {val!r}")
        for nm, x, y in (("time", v["hours"], m["time"]), ("shelfTemp", v["shelf"], m["shelf"])):
            y = np.asarray(y, float)
            if x.shape != y.shape:
                dis.append(f"len({nm}): real VISF run {len(x)} vs model {len(y)}")
                continue
            bad = np.nonzero(~(np.abs(x - y) <= 1e-9 * np.maximum(1.0, np.maximum(np.abs(x), np.abs(y)))))[0]
            if len(bad):
                dis.append(f"{nm}[{int(bad[0])}]: real VISF run {float(x[bad[0]])!r} vs model {float(y[bad[0]])!r}")
        rows = m["rows"]
        for nm, x, y in (("temp", v["temp"], m["temp"]), ("iceMassFraction", v["ice"], m["ice"])):
            y = np.asarray(y, float)
            if len(x) != m["nrows"] or (len(rows) and x[rows].shape != y.shape):
                dis.append(f"shape({nm}): real VISF run {x.shape} vs model {m['nrows']} rows of {y.shape[1:]}")
                continue
            xa = x[rows]
            err = ~(np.abs(xa - y) <= 1e-9 * np.maximum(1.0, np.maximum(np.abs(xa), np.abs(y))))
            bad = np.argwhere(err)
            if len(bad):
                r, j = int(bad[0][0]), int(bad[0][1])
                g = rows[r]
                t = float(v["hours"][g]) * 3600
                stage = "cooling" if g < v["inuc"] else "solidification"
                if min(abs(t - lo), abs(t - hi)) <= 1e-9 * max(1.0, abs(t)):
                    dis.append(f"TIE: row {g} sits on the window boundary")
                else:
                    dis.append(f"{nm}[row {g}, node {j}] ({stage} stage, t={t:.3f}s, configured window {lo:.1f}-{hi:.1f}s): "
                               f"real VISF run {float(xa[r, j])!r} vs model {float(y[r, j])!r} ({len(bad)} entries differ)")
        # (2) the hand window model, step by step, top node, every cooling row
        ms = model["steps"]
        if "broken" in ms:
            dis.append("broken observation: " + ms["broken"])
            return dis
        top, _ = _top_below(v, False)
        for j, (pred, flag) in enumerate(zip(ms["next"], ms["inWindow"])):
            got = float(top[j + 1])
            if not (abs(pred - got) <= 1e-9 * max(1.0, abs(got))):
                t = ms["dt"] * (j + 1)
                if min(abs(t - lo), abs(t - hi)) <= 1e-9 * max(1.0, abs(t)):
                    dis.append(f"TIE: step {j+1} sits on the window boundary")
                    continue
                dis.append(f"top node after step {j+1} (t={t:.3f}s, window {lo:.1f}-{hi:.1f}s, window model inWindow={flag}): "
                           f"real run {got!r} vs window model {pred!r}")
                break
        return dis
    if k == "window2d":
        if "visf" not in impl:
            return dis
        v = impl["visf"]
        n = len(v["hours"])
        rows = s2.keep_rows(n, min(v["inuc"], n - 1), int(case["outStride"]))
        obs = {"raise": None, "stats": v["stats"], "n": n, "time": v["hours"].tolist(), "shelf": v["shelf"].tolist(),
               "iSaveEnd": min(v["inuc"], n - 1), "rows": rows,
               "temp": [v["temp"][r].reshape(-1) for r in rows], "ice": [v["ice"][r].reshape(-1) for r in rows]}
        return s2.compare_runs(obs, model["run"], what="2D VISF run")
    return dis


# ---------------------------------------------------------------------------
# the property itself, on the implementation's output
# ---------------------------------------------------------------------------
def predicates(case, impl):
    out = []
    k = case["kind"]
    if k in ("utils", "grid") and impl.get("raise"):
        return [Failure(clause="unexpected_raise", key=f"unexpected_raise|utils|{impl['raise']}",
                        detail=f"vapour_pressure_liquid / vapour_pressure_solid / vapour_flux raise {impl['raise']} on "
                               f"finite positive inputs")]
    if k == "utils":
        U = _utils()
        for a, f in zip(case["flux"], impl["flux"]):
            kappa, m, kB, pvac, pvap, Tl, Tv = a
            if Tl == Tv:
                if pvap == pvac and f != 0:
                    out.append(Failure(clause="flux_zero_at_equilibrium", key="flux_zero_at_equilibrium|vapour_flux|",
                                       detail=f"flux {f!r} at equal pressures {a}"))
                margin = abs(pvap - pvac) / max(abs(pvap), abs(pvac), 1e-300)
                if margin > 1e-9 and (f > 0) != (pvap > pvac):
                    out.append(Failure(clause="flux_pos_iff", key="flux_pos_iff|vapour_flux|",
                                       detail=f"flux {f!r} with p_vap {pvap!r}, p_vac {pvac!r}"))
                # closed form
                want = (2 * kappa / (2 - kappa)) * math.sqrt(m / (2 * math.pi * kB)) * (pvap - pvac) / math.sqrt(Tl)
                # (rounding: the code subtracts two nearly equal quotients, so the noise is relative to them)
                noise = 1e-13 * (2 * kappa / (2 - kappa)) * math.sqrt(m / (2 * math.pi * kB)) * \
                    (abs(pvap) + abs(pvac)) / math.sqrt(Tl)
                if not (abs(want - f) <= 1e-9 * max(abs(want), abs(f)) + noise + 1e-300):
                    out.append(Failure(clause="flux_scales_kappa", key="flux_scales_kappa|vapour_flux|",
                                       detail=f"flux {f!r} vs closed form {want!r} at {a}"))
            # monotone in p_vap and in kappa (finite differences on the implementation)
            f2 = float(U.vapour_flux(np.float64(kappa), m, kB, pvac, np.float64(pvap * 1.01 + 1e-3), Tl, Tv))
            if not f2 > f:
                out.append(Failure(clause="flux_mono_pvap", key="flux_mono_pvap|vapour_flux|",
                                   detail=f"flux does not increase with p_vap at {a}"))
            if Tl == Tv and pvap > pvac * (1 + 1e-6) and kappa < 0.99:
                f3 = float(U.vapour_flux(np.float64(min(1.0, kappa * 1.01)), m, kB, pvac, pvap, Tl, Tv))
                if not f3 > f:
                    out.append(Failure(clause="flux_scales_kappa", key="flux_scales_kappa|vapour_flux|mono",
                                       detail=f"flux does not increase with kappa at {a}"))
        # monotone curves on the sorted sample
        T = case["T"]
        order = sorted(range(len(T)), key=lambda i: T[i])
        for nm, lo, hi in (("solid", 0.0, 400.0), ("liquid", 123.0, 332.0)):
            prev = None
            for i in order:
                if not (lo < T[i] <= hi) or (nm == "liquid" and T[i] < lo):
                    continue
                if prev is not None and T[i] > T[prev] * (1 + 1e-12) and not impl[nm][i] > impl[nm][prev]:
                    if abs(impl[nm][i] - impl[nm][prev]) > 1e-12 * abs(impl[nm][i]):
                        out.append(Failure(clause=f"p_{nm}_strictMono", key=f"p_{nm}_strictMono|utils|",
                                           detail=f"{nm}: p({T[prev]!r})={impl[nm][prev]!r} >= p({T[i]!r})={impl[nm][i]!r}"))
                        break
                prev = i
        return out
    if k == "grid":
        T = _grid()
        pl, ps = impl["liquid"], impl["solid"]
        a, b = impl["triple"]
        if not abs(a - b) <= 1e-6 * max(a, b):
            out.append(Failure(clause="triple_point_coincide", key="triple_point_coincide|utils|",
                               detail=f"p_liq(273.16)={a!r}, p_ice(273.16)={b!r}: relative gap {abs(a-b)/max(a,b):.3e} > 1e-6"))
        for i, t in enumerate(T):
            if t <= 273.15 and ps[i] > pl[i]:
                out.append(Failure(clause="p_ice_le_p_liq_below", key="p_ice_le_p_liq_below|utils|",
                                   detail=f"p_ice({t:.2f})={ps[i]!r} > p_liq({t:.2f})={pl[i]!r}"))
                break
        # premise of the interpolation theorem p_ice_lt_p_liq_between on every grid cell [T_i, T_i+1] up to 273.05 K:
        # p_ice at the UPPER end below p_liq at the LOWER end (then p_ice < p_liq on the whole cell, over the reals)
        for i in range(len(T) - 1):
            if T[i + 1] <= 273.05 and not ps[i + 1] < pl[i] * (1 - 1e-6):
                out.append(Failure(clause="p_ice_le_p_liq_below", key="p_ice_le_p_liq_below|utils|interpolation",
                                   detail=f"p_ice({T[i+1]:.2f})={ps[i+1]!r} is not below p_liq({T[i]:.2f})={pl[i]!r}: the "
                                          f"cell [{T[i]:.2f},{T[i+1]:.2f}] K is not covered by p_ice_lt_p_liq_between"))
                break
        for nm, arr in (("liquid", pl), ("solid", ps)):
            for i in range(len(T) - 1):
                if not arr[i + 1] > arr[i]:
                    cls = "proved-range" if (nm == "solid" or T[i] >= 123.0) else "monitored-range"
                    out.append(Failure(clause=f"p_{nm}_strictMono", key=f"p_{nm}_strictMono|utils|grid-{cls}",
                                       detail=f"{nm}: not increasing between {T[i]:.2f} and {T[i+1]:.2f} K"))
                    break
        return out
    if k in ("window", "window2d"):
        site = "_run_1D" if k == "window" else "_run_2D"
        two_d = k == "window2d"
        # these programmes nucleate and solidify within t_tot on the unchanged code, in both configurations: a run (or
        # constructor, or accessor) that raises is a failure of the real code, not a reason to say nothing
        for conf in ("VISF", "shelf"):
            if impl["runs"][conf]:
                out.append(Failure(clause="unexpected_raise", key=f"unexpected_raise|{site}|{conf}:{impl['runs'][conf]}",
                                   detail=f"the {conf} run raises {impl['runs'][conf]} (stage {impl['stages'][conf]}) "
                                          f"for a programme that completes on the unchanged code"))
        if "visf" not in impl:
            return out
        c = impl["const"]
        lo, hi = _window(case)
        want_c = _configured(case)
        for key in ("t_vac_start", "t_vac_duration", "kappa", "p_vac", "Dh_evaporation", "m_water"):
            if c.get(key) != want_c[key]:
                src_ = ("the configuration file" if key.startswith("t_vac") or case.get(key) is not None
                        else "the packaged default")
                out.append(Failure(clause="window_as_configured", key=f"window_as_configured|calculateDerived|{key}",
                                   detail=f"{key}: {src_} says {want_c[key]!r} but the run uses {c.get(key)!r}"))
        # --- EFFECTS, step by step, both stages: the heat flux the run actually applied at the top (centre) node,
        # inferred from every pair of consecutive published rows by inverting the update of that node
        # (snowing2dutil._top_flux), against the CONFIGURED boundary condition: -N_w*dHe (liquid curve before, ice curve
        # after nucleation) at steps whose time label lies strictly inside the configured window, ZERO at all others.
        # The row with time label t is the state AFTER the step that evaluated the window test at t, so every step is
        # judged at its own time: a flux one step early or late, or a stale flux after the window, shows here.
        v = impl["visf"]
        dt, t = _steps(case, c, v, "VISF run")
        cc = _const_configured(case, c)
        res = {"const": cc, "temp": v["temp"], "ice": v["ice"], "time": v["hours"]}
        tf = s2._top_flux(None, res, dt, v["inuc"])
        n_tr = len(t) - 2
        if not tf or tf.get("n", 0) < n_tr:
            raise BrokenObservation(f"top-flux inference reads {tf.get('n') if tf else None} of {n_tr} row transitions")
        if "shelf" in impl:
            sh = impl["shelf"]
            dts, _ = _steps(case, impl["shelf_const"], sh, "shelf run")
            tfs = s2._top_flux(None, {"const": impl["shelf_const"], "temp": sh["temp"], "ice": sh["ice"],
                                      "time": sh["hours"]}, dts, sh["inuc"])
            if not tfs or tfs.get("n", 0) < len(sh["hours"]) - 2 or tfs["score"] > 1:
                # calibration of the inference on the run that has no evaporation at all
                raise BrokenObservation(f"top-flux inference does not give zero on the shelf run: {tfs}")
        if tf["score"] > 1:
            g = tf["row"]
            tt = float(t[g])
            where = f"{tf['stage']} stage, row {g}, t={tt:.3f}s, configured window ({lo:.3f},{hi:.3f})s"
            on_edge = min(abs(tt - lo), abs(tt - hi)) <= 1e-9 * max(1.0, abs(tt))
            if on_edge:
                pass        # the float comparison dt*i > lo is ambiguous exactly on the boundary
            elif tf["q_expected"] == 0:
                out.append(Failure(clause="no_evap_outside_window", key=f"no_evap_outside_window|{site}|{tf['stage']}",
                                   detail=f"a top heat flux of {tf['q_applied']:.6g} W/m2 is applied outside the window ({where})"))
            elif tf["q_applied"] == 0 or abs(tf["q_applied"]) <= 1e-2:
                out.append(Failure(clause="qE_eq", key=f"qE_eq|{site}|missing:{tf['stage']}",
                                   detail=f"no evaporative flux applied inside the window, expected {tf['q_expected']:.6g} W/m2 ({where})"))
            elif (tf["q_applied"] < 0) != (tf["q_expected"] < 0):
                out.append(Failure(clause="evap_cools_iff", key=f"evap_cools_iff|{site}|{tf['stage']}",
                                   detail=f"applied flux {tf['q_applied']:.6g} W/m2 has the wrong sign, expected {tf['q_expected']:.6g} ({where})"))
            else:
                out.append(Failure(clause="qE_eq", key=f"qE_eq|{site}|value:{tf['stage']}",
                                   detail=f"applied flux {tf['q_applied']:.6g} W/m2 vs -N_w*dHe = {tf['q_expected']:.6g} "
                                          f"(T_top {tf['T_top']:.4f} K; {where})"))
        if "pair" not in impl:
            return out
        p = impl["pair"]
        # --- run against run: identical rows up to the window; identical runs when the window never opens
        t_last = float(t[-1])
        never = not (hi > lo) or lo >= max(t_last, case["t_tot"]) * (1 + 1e-9)
        if never:
            if not (p["identical"] and p["ice_identical"] and p["stats_identical"]):
                out.append(Failure(clause="visf_eq_shelf_outside_window", key=f"visf_eq_shelf_outside_window|{site}|never-open",
                                   detail=f"window ({lo:.1f},{hi:.1f}) s never opens but VISF and shelf runs differ "
                                          f"(first differing row {p['first_diff']})"))
        else:
            fd = p["first_diff"]
            if fd is None and p["len_visf"] != p["len_shelf"]:
                fd = min(p["len_visf"], p["len_shelf"])
            if fd is not None and p["first_diff_time"] is not None:
                # (the first row that may differ is the one whose OWN time label is inside the window: it is the state
                # after the step that tested that time; a row labelled t <= lo differing = evaporation too early.  The
                # relative 1e-9 only excuses a label that equals lo up to rounding of hours*3600.)
                tdiff = p["first_diff_time"]
                if p["first_diff_time_shelf"] != tdiff and min(tdiff, p["first_diff_time_shelf"]) <= lo * (1 - 1e-9):
                    out.append(Failure(clause="visf_eq_shelf_before_window", key=f"visf_eq_shelf_before_window|{site}|time",
                                       detail=f"time axes differ at row {fd} before the window opens"))
                elif tdiff <= lo * (1 - 1e-9):
                    out.append(Failure(clause="visf_eq_shelf_before_window", key=f"visf_eq_shelf_before_window|{site}|",
                                       detail=f"VISF and shelf runs differ at t={tdiff:.3f}s, before the window opens at {lo:.3f}s"))
                elif not two_d and "diff_row_visf" in p and p["first_diff_time_shelf"] == tdiff and fd < v["inuc"]:
                    a, b = p["diff_row_visf"], p["diff_row_shelf"]
                    if a[:-1] != b[:-1]:
                        out.append(Failure(clause="evap_cools_top_only", key="evap_cools_top_only|_run_1D|",
                                           detail=f"first affected step changes nodes below the top: row {fd}"))
                    # sign: cooler iff p_vap(liquid, previous top) >= p_vac
                    if p.get("prev_row"):
                        U = _utils()
                        pv = float(U.vapour_pressure_liquid(np.float64(p["prev_row"][-1] + 273.15)))
                        if abs(pv - want_c["p_vac"]) > 1e-6 * want_c["p_vac"]:
                            cooler = a[-1] < b[-1]
                            if cooler != (pv > want_c["p_vac"]):
                                out.append(Failure(clause="evap_cools_iff", key="evap_cools_iff|_run_1D|",
                                                   detail=f"p_vap={pv:.3f}, p_vac={want_c['p_vac']}: VISF top {a[-1]!r} vs shelf top {b[-1]!r}"))
        return out
    return out


def classify(case, impl):
    tags = [f"kind={case['kind']}"]
    if case["kind"] == "correlation":
        for d, n in impl["first"].items():
            tags.append(f"first-cooling-step({d})-calls={n}")
        if impl["first"].get("spatial_2D") == "solid":
            tags.append("F11-observed: 2D cooling stage uses the ice curve for a liquid surface (not a C20 clause; see C15)")
    if case["kind"] in ("window", "window2d"):
        tags.append("runs=" + "/".join(str(impl["runs"][c]) for c in ("VISF", "shelf")))
        if "pair" in impl and "visf" in impl:
            lo, hi = _window(case)
            v = impl["visf"]
            t = v["hours"] * 3600.0
            tn, tl = float(t[min(v["inuc"], len(t) - 1)]), float(t[-1])
            if not hi > lo:
                tags.append("window=empty")
            elif lo >= tl:
                tags.append("window=beyond-run")
            elif hi <= tn:
                tags.append("window=before-nucleation")
            elif lo < tn:
                tags.append("window=straddles-nucleation")
            else:
                tags.append("window=during-solidification")
            tags.append("identical" if impl["pair"]["identical"] else "differs")
    return tags


def nontrivial(case, impl):
    if case["kind"] in ("window", "window2d"):
        return "pair" in impl
    return True


# ---------------------------------------------------------------------------
# generators
# ---------------------------------------------------------------------------
def _utils_case(rng, n=100):
    T = []
    for _ in range(n):
        r = rng.random()
        if r < 0.6:
            T.append(rng.uniform(123.0, 332.0))
        elif r < 0.8:
            T.append(rng.uniform(235.0, 300.0))
        elif r < 0.9:
            T.append(rng.choice([273.15, 273.16, 218.8, 235.0, 332.0, 123.0, 250.0, 300.0]))
        else:
            T.append(rng.uniform(50.0, 400.0))
    flux = []
    for _ in range(n):
        kappa = rng.choice([0.01, 1.0, 0.5, rng.uniform(1e-4, 1.0), 10 ** rng.uniform(-4, 0)])
        m = rng.choice([2.99e-26, 2.99e-26 * rng.uniform(0.5, 2)])
        kB = rng.choice([1.38e-23, 1.380649e-23])
        Tl = rng.uniform(200.0, 320.0)
        Tv = Tl if rng.random() < 0.7 else rng.uniform(200.0, 320.0)
        pvac = rng.choice([100.0, 10.0, 1.0, rng.uniform(0.1, 3000.0)])
        r = rng.random()
        if r < 0.15:
            pvap = pvac
        elif r < 0.3:
            pvap = pvac * (1 + rng.choice([-1, 1]) * 10 ** rng.uniform(-8, -1))
        else:
            pvap = rng.uniform(0.1, 4000.0)
        flux.append([kappa, m, kB, pvac, pvap, Tl, Tv])
    return dict(kind="utils", T=T, flux=flux)


def _window_case(rng, cls=None):
    # every step is recorded when ceil(t_tot/dt)+1 <= 10000 (dt = 0.667 s at 0.04 m, 0.375 s at 0.03 m)
    height, t_tot, rate, s0 = rng.choice([(0.04, 6000.0, 0.2, 500), (0.04, 5400.0, 0.5, 800), (0.03, 3600.0, 1.0, 1000)])
    cls = cls or rng.choice(["early", "early", "straddle", "solid", "beyond", "empty", "negative", "whole",
                             "start0", "start0-empty"])
    if cls == "early":
        t_start = rng.uniform(0.002, 0.02)
        t_dur = rng.uniform(0.002, 0.01)
    elif cls == "straddle":
        t_start = rng.uniform(0.005, 0.03)
        t_dur = rng.uniform(0.05, 0.3)
    elif cls == "solid":
        t_start = rng.uniform(0.15, 0.4)
        t_dur = rng.uniform(0.02, 0.2)
    elif cls == "beyond":
        t_start = t_tot / 3600 * rng.uniform(1.01, 2.0)
        t_dur = rng.uniform(0.01, 0.5)
    elif cls == "empty":
        t_start = rng.uniform(0.0, 0.5)
        t_dur = rng.choice([0, 0.0])          # exactly zero, as int and as float
    elif cls == "start0":
        t_start = rng.choice([0, 0.0])        # window open from the first step
        t_dur = rng.uniform(0.004, 0.03)
    elif cls == "start0-empty":
        t_start, t_dur = 0, 0
    elif cls == "negative":
        t_start = rng.uniform(0.05, 0.5)
        t_dur = -rng.uniform(0.01, 0.04)
    else:
        t_start = 0.0
        t_dur = t_tot / 3600 * 2
    case = dict(kind="window", cls=cls, height=height, t_tot=t_tot, rate=rate, s0=s0,
                t_start=t_start, t_dur=t_dur)
    if rng.random() < 0.3:
        case["kappa"] = rng.choice([0.001, 0.005, 0.02])
    return case


def _history_case(rng, k):
    """second run of a USED object after `configPath` was re-pointed to a file with a DISJOINT window (and another
    kappa / p_vac): A early -> B late, A late -> B early, A open -> B empty, A open -> B beyond the process"""
    b = _window_case(rng, ["solid", "early", "empty", "beyond"][k % 4])
    a_cls = ["early", "solid", "early", "straddle"][k % 4]
    a = _window_case(rng, a_cls)
    b["prev"] = dict(t_start=a["t_start"], t_dur=a["t_dur"], kappa=rng.choice([0.02, 0.005]),
                     p_vac=rng.choice([50, 200]))
    b["cls"] = "history:" + a_cls + "->" + b["cls"]
    return b


def _rerun_case(rng, k):
    """object HISTORY without any edit in between: k even - plain `S.run(); S.run()` on the one VISF object (the second
    run is observed); k odd - a sequential study of Nrep = 3 repetitions on the one object (every repetition's
    statistics and the arrays of the last one are observed).  Every run / repetition must evaporate inside the
    configured window exactly like a fresh object's run with the same random draw."""
    b = _window_case(rng, ["early", "straddle", "solid"][(k // 2) % 3])
    if k % 2 == 0:
        b["rerun"] = True
        b["cls"] = "history:run-twice:" + b["cls"]
    else:
        b["nrep"] = 3
        b["cls"] = "history:sequential-Nrep3:" + b["cls"]
    return b


def _cross_object_case(rng, k):
    """object A (file overriding every VISF entry) is built first; the observed object B comes from a file that omits
    kappa / p_vac (k even) or the whole VISF section (k odd: default window 0.75 h + 0.1 h) and must get the defaults"""
    d = _default_visf()
    other = dict(p_vac=rng.choice([20, 400]), kappa=rng.choice([0.05, 0.002]), t_vac_start=rng.uniform(0.001, 0.01),
                 t_vac_duration=rng.uniform(0.2, 0.4), m_water=2.5e-26, Dh_evaporation=2.0e6)
    if k % 2 == 0:
        b = _window_case(rng, rng.choice(["early", "straddle"]))
        b.pop("kappa", None)
    else:
        b = _window_case(rng, "solid")
        b.pop("kappa", None)
        b["height"], b["t_tot"], b["rate"], b["s0"] = 0.04, 6000.0, 0.2, 500
        b["omit_visf"] = True
        b["t_start"], b["t_dur"] = float(d["t_vac_start"]), float(d["t_vac_duration"])
    b["other"] = other
    b["cls"] = "cross-object:" + ("omit-visf" if b.get("omit_visf") else "omit-kappa")
    return b


def _window2d_case(rng, k=0):
    """a small 2D VISF run end to end (squat wide vial: a few thousand steps, every step recorded) with the window
    straddling nucleation (k even) or inside the cooling stage (k odd)"""
    case = dict(kind="window2d", height=0.01, diameter=0.04, K_shelf=1000, t_tot=200, outStride=40)
    if k % 2 == 0:
        case.update(t_start=rng.uniform(10, 30) / 3600, t_dur=rng.uniform(80, 120) / 3600, cls="2D:straddle")
    else:
        case.update(t_start=rng.uniform(5, 20) / 3600, t_dur=rng.uniform(5, 15) / 3600, cls="2D:early")
    if rng.random() < 0.5:
        case["kappa"] = rng.choice([0.005, 0.02])
    return case


def cases(rng, tier):
    n_utils, n_win = (24, 10) if tier == "quick" else (400, 120)
    # (the 2D pair first: it is the longest single case, the pool then overlaps it with everything else)
    for k in range(1 if tier == "quick" else 6):
        yield _window2d_case(rng, k + core.env_seed())
    for c in _cases_rest(rng, tier, n_utils, n_win):
        if c["kind"] == "window":
            # rows of temp / ice the whole-run model sends back: all in the thorough tier, every third in quick
            c["row_stride"] = 3 if tier == "quick" else 1
        yield c


def _cases_rest(rng, tier, n_utils, n_win):
    yield dict(kind="grid")
    yield dict(kind="correlation")
    for _ in range(n_utils):
        yield _utils_case(rng)
    must = ["early", "straddle", "solid", "beyond", "empty", "start0", "start0-empty"]
    for i in range(n_win):
        yield _window_case(rng, must[i] if i < len(must) else None)
    for k in range(2 if tier == "quick" else 16):
        yield _history_case(rng, k + (core.env_seed() % 4))
    for k in range(2 if tier == "quick" else 12):
        yield _cross_object_case(rng, k)
    for k in range(2 if tier == "quick" else 12):
        yield _rerun_case(rng, k + 2 * (core.env_seed() % 3))


def widen(rng, tier):
    for _ in range(40 if tier == "quick" else 400):
        yield _utils_case(rng)
