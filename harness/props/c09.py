"""C09 Heat-exchange topology matches the declared vial arrangement."""
from __future__ import annotations

import itertools
import os
import tempfile

import shim  # noqa: F401
import numpy as np

import core
from core import Failure, close

ID = "C09"
LEAN_MODULE = "SnowProofs.Props.C09"
THEOREMS = [
    dict(name="Snow.C09.adj_iff_geom", clause="two vials exchange heat iff they are geometric neighbours (all shapes, both arrangements)", strength="full"),
    dict(name="Snow.C09.adj_symm", clause="exchange is mutual", strength="full"),
    dict(name="Snow.C09.adj_irrefl", clause="no vial exchanges heat with itself through the off-diagonal part", strength="full"),
    dict(name="Snow.C09.pair_once", clause="every matrix entry is 0 or 1 and symmetric: each neighbouring pair is counted once, same conductance both ways", strength="full"),
    dict(name="Snow.C09.deg_eq_geomDeg", clause="row sum (VIAL_INT) = number of geometric neighbours inside the batch", strength="full"),
    dict(name="Snow.C09.geomDeg_le_maxNbr", clause="a vial never has more neighbours than the arrangement's maximum (exposure is not truncated)", strength="full"),
    dict(name="Snow.C09.ext_eq", clause="exposure = maximum neighbour count - actual neighbours", strength="full"),
    dict(name="Snow.C09.row_sum_zero", clause="rows of H_int = k*A*(adj - diag deg) sum to zero", strength="full"),
    dict(name="Snow.C09.col_sum_zero", clause="columns of H_int sum to zero", strength="full"),
    dict(name="Snow.C09.heat_cancels", clause="heat exchanged between vials sums to zero over the batch for every temperature vector", strength="full"),
    dict(name="Snow.C09.H_int_eq", clause="H_int[i,j] = k_int*A*([i,j exchange heat] - [i=j]*deg i) for all shapes", strength="full"),
    dict(name="Snow.C09.H_ext_eq", clause="H_ext[i] = k_ext*A*(maxNbr - geometric neighbours), without truncation", strength="full"),
    dict(name="Snow.C09.upstream_double_count_witness", clause="the y-pattern before fix F2 counts the pair (0,2) of a 2x1x2 square pallet twice", strength="refutation-of-old-code"),
    dict(name="Snow.C09.nonvacuous", clause="hypotheses are satisfiable (concrete shapes with neighbours of every kind)", strength="nonvacuity"),
]
TRUSTED = [
    "Lean 4.33 kernel; axioms per theorem listed under coverage.axioms",
    "hand-written closed-form model SnowModel/Topology.lean tied to Snowflake._buildInteractionMatrices by an "
    "entrywise comparison that is exhaustive over the stated box of shapes (outside the box the tie is the "
    "uniformity of the index formulas, not a run)",
    "numpy np.diag / scipy.sparse addition semantics as observed through the dense matrix",
    "H_int, H_ext scaling is float multiplication (compared with rtol 1e-9); the theorems on H are over a commutative ring",
]
ASSUMPTIONS = [
    "re-declared shapes: the theorems speak about the pattern of a declared shape; that an existing object serves the "
    "pattern of its CURRENT N_vials is checked by comparison only (the object/cache state machine is C04's subject)",
    "n_x, n_y, n_z >= 1 (integers); vial_arrangement 'square' or anything else (= hexagonal branch)",
    "geometric neighbours: square = unit Manhattan distance; hexagonal = odd rows offset by half a pitch, "
    "same-row distance one pitch, adjacent-row distance half a pitch; plus directly above/below",
]
RULE = ("EXHAUSTIVE: every shape n_x, n_y <= 7, n_z <= 4 (quick) / n_x, n_y <= 12, n_z <= 5 (thorough) in both "
        "arrangements, all N^2 matrix entries, the exposure vector and the scaled H_int/H_ext (random k, the "
        "configured A), and the same object re-declared to the transposed (or next wider) shape and, separately, across the "
        "shelf <-> pallet boundary (n_z 1 -> 2 or 3, n_z > 1 -> 1) with the three "
        "accessors read in one of the six orders, and re-pointed (same shape) to the other arrangement through "
        "configPath after the pattern was built, each compared with a fresh object and with the model; a case is one "
        "(arrangement, shape, k); non-trivial when the batch has at least one pair of "
        "neighbours; distinct by the JSON form of the case (the corpus cases repeat box shapes with other k)")
EXPLANATION = ("Lean theorems for all shapes about the closed-form interaction pattern + exhaustive entrywise "
               "comparison of the pattern with Snowflake._buildInteractionMatrices over a box of shapes")
PARALLEL = True

_HEX_YAML = None


class HarnessError(Exception):
    """the harness itself cannot observe (a private name it reads is gone, a temp file is wrong, ...):
    propagated as an infrastructure error (exit 2), never mapped to a violation of the code"""


def priv(obj, name):
    """read a private attribute of the implementation; its absence is the harness's problem, not a violation"""
    try:
        return getattr(obj, name)
    except AttributeError as e:
        raise HarnessError(f"the harness reads the private name {name!r} of {type(obj).__name__}, which no longer "
                           f"exists: adapt the harness ({e})")


def build_pattern(S):
    """(interaction matrix, VIAL_EXT) as the code builds them now (recomputed on every call in the code as it is)"""
    return priv(S, "_buildInteractionMatrices")()


def stored_mask(S):
    return np.asarray(priv(S, "_storageMask"))


def empty_store(S):
    return bool(priv(S, "_emptyStore"))


def state_matrix(S):
    """the stored state matrix through the public accessors (temperatures first, ice fractions second)"""
    return np.concatenate([np.asarray(S.X_T), np.asarray(S.X_sigma)])


def hex_yaml():
    """YAML selecting the hexagonal arrangement: written freshly by every process into a private temp
    directory that is removed at exit"""
    global _HEX_YAML
    if _HEX_YAML is None or not os.path.exists(_HEX_YAML):
        import atexit
        import shutil

        d = tempfile.mkdtemp(prefix="snowverif_")
        atexit.register(shutil.rmtree, d, True)
        path = os.path.join(d, "hexagonal.yaml")
        with open(path, "w") as f:
            f.write("snowfall_parameters:\n  vial_arrangement: hexagonal\n")
        _HEX_YAML = path
    return _HEX_YAML


# created at import time in the process that runs the check, so that forked pool workers inherit the one file
# (workers leave through os._exit and would never remove a directory of their own)
hex_yaml()


def check_arr(S, arr):
    """the object must report the arrangement the case asked for (guards the temp YAML)"""
    seen = str(S.const["vial_arrangement"])
    if seen != arr:
        raise HarnessError(f"case asks for the {arr} arrangement but the constructed object reports {seen!r}")


def config_for(arr):
    return None if arr == "square" else hex_yaml()


def coords(i, nx, ny):
    return (i % nx, (i // nx) % ny, i // (nx * ny))


def geom(arr, a, b):
    """independent geometric oracle on coordinates"""
    (x, y, z), (u, v, w) = a, b
    if arr == "square":
        return abs(x - u) + abs(y - v) + abs(z - w) == 1
    if z != w:
        return x == u and y == v and abs(z - w) == 1
    # physical positions in half pitches; odd rows offset by half a pitch
    p, q = 2 * x + (y % 2), 2 * u + (v % 2)
    return (y == v and abs(p - q) == 2) or (abs(y - v) == 1 and abs(p - q) == 1)


def max_nbr(arr, nz):
    return (4 if arr == "square" else 6) + (2 if nz > 1 else 0)


def _num(v):
    v = float(v)
    return int(v) if v == int(v) else v


ORDERS = [("H_int", "H_ext", "H_shelf"), ("H_int", "H_shelf", "H_ext"), ("H_ext", "H_int", "H_shelf"),
          ("H_ext", "H_shelf", "H_int"), ("H_shelf", "H_int", "H_ext"), ("H_shelf", "H_ext", "H_int")]


def redeclared(case):
    """the shape that an existing object of the case's shape is re-declared to, and the order in which the
    three accessors are then read (all six orders occur over the box)"""
    nx, ny, nz = case["nx"], case["ny"], case["nz"]
    new = (ny, nx, nz) if nx != ny else (nx + 1, ny, nz)
    return new, ORDERS[(nx + 2 * ny + 3 * nz) % 6]


def redeclared_layers(case):
    """a second re-declaration that crosses the shelf <-> pallet boundary (n_z 1 -> 2 or 3, n_z > 1 -> 1),
    with another accessor order"""
    nx, ny, nz = case["nx"], case["ny"], case["nz"]
    new = (nx, ny, 1) if nz > 1 else (nx, ny, 3 if (nx + ny) % 2 else 2)
    return new, ORDERS[(2 * nx + ny + nz + 1) % 6]


def other_arr(arr):
    return "hexagonal" if arr == "square" else "square"


def _raw_pattern(S):
    M, E = build_pattern(S)
    M = np.asarray(M.todense())
    ii, jj = np.nonzero(M)
    return ([[int(i), int(j), _num(M[i, j])] for i, j in zip(ii, jj) if i != j],
            [_num(M[i, i]) for i in range(M.shape[0])], [_num(e) for e in np.asarray(E).ravel()])


def _pattern(S):
    H = np.asarray(S.H_int.todense())
    ii, jj = np.nonzero(H)
    return ([[int(i), int(j), float(H[i, j])] for i, j in zip(ii, jj)], [float(x) for x in np.asarray(S.H_ext).ravel()],
            [float(x) for x in np.atleast_1d(np.asarray(S.H_shelf, dtype=float)).ravel()])


def run_impl(case):
    from ethz_snow.snowflake import Snowflake

    nx, ny, nz = case["nx"], case["ny"], case["nz"]
    try:
        S = Snowflake(k={"int": case["k_int"], "ext": case["k_ext"], "s0": 20}, N_vials=(nx, ny, nz),
                      configPath=config_for(case["arr"]))
    except HarnessError:
        raise
    except Exception as e:
        return {"raise": core.exc_class(e), "stage": "init"}
    check_arr(S, case["arr"])
    try:
        M, E = build_pattern(S)
    except HarnessError:
        raise
    except Exception as e:
        return {"raise": core.exc_class(e), "stage": "_buildInteractionMatrices"}
    M = np.asarray(M.todense())
    N = nx * ny * nz
    obs = {"raise": None, "n": int(M.shape[0]), "shape2": list(M.shape)}
    ii, jj = np.nonzero(M)
    obs["entries"] = [[int(i), int(j), _num(M[i, j])] for i, j in zip(ii, jj) if i != j]
    obs["diag"] = [_num(M[i, i]) for i in range(M.shape[0])]
    obs["ext"] = [_num(e) for e in np.asarray(E).ravel()]
    try:
        H = np.asarray(S.H_int.todense())
        Hx = np.asarray(S.H_ext).ravel()
    except HarnessError:
        raise
    except Exception as e:
        return {"raise": core.exc_class(e), "stage": "H_int"}
    ii, jj = np.nonzero(H)
    obs["H_int"] = [[int(i), int(j), float(H[i, j])] for i, j in zip(ii, jj)]
    obs["H_ext"] = [float(x) for x in Hx]
    obs["A"] = float(S.const["A"])
    obs["arr_seen"] = str(S.const["vial_arrangement"])
    # heat exchanged between vials for a fixed non-constant temperature vector
    T = np.cos(np.arange(N) * 1.7) * 30.0 - 10.0
    q = S.H_int @ T
    obs["heat_sum"] = float(np.sum(q))
    obs["heat_scale"] = float(np.sum(np.abs(H)) * 40.0 + 1.0)
    obs["row_sums"] = float(np.max(np.abs(H.sum(axis=1)))) if N else 0.0
    obs["col_sums"] = float(np.max(np.abs(H.sum(axis=0)))) if N else 0.0
    # the same object re-declared to another shape: the accessors read in a given order must serve the
    # topology of the new shape (compared with a fresh object of that shape, and with the model)
    def _redeclare(obj, new, order):
        try:
            obj.N_vials = new
            for name in order:
                getattr(obj, name)
            hi, hx, hs = _pattern(obj)
            raw = _raw_pattern(obj)
            F = Snowflake(k={"int": case["k_int"], "ext": case["k_ext"], "s0": 20}, N_vials=new,
                          configPath=config_for(case["arr"]))
            fi, fx, fs = _pattern(F)
            fraw = _raw_pattern(F)
            return {"shape": list(new), "order": list(order), "H_int": hi, "H_ext": hx, "ext": raw[2],
                    "same_as_fresh": bool(hi == fi and hx == fx and hs == fs and raw == fraw),
                    "n_int": [len(hi), len(fi)], "n_ext": [len(hx), len(fx)], "n_shelf": [len(hs), len(fs)],
                    "ext_head": [raw[2][:4], fraw[2][:4]]}
        except HarnessError:
            raise
        except Exception as e:
            return {"shape": list(new), "order": list(order), "raise": core.exc_class(e)}

    obs["redecl"] = _redeclare(S, *redeclared(case))
    try:
        S1 = Snowflake(k={"int": case["k_int"], "ext": case["k_ext"], "s0": 20}, N_vials=(nx, ny, nz),
                       configPath=config_for(case["arr"]))
        S1.H_int, S1.H_ext, S1.H_shelf
        obs["redecl_layers"] = _redeclare(S1, *redeclared_layers(case))
    except HarnessError:
        raise
    except Exception as e:
        obs["redecl_layers"] = {"shape": list(redeclared_layers(case)[0]), "order": [], "raise": core.exc_class(e)}
    # the same shape re-pointed to the other arrangement through the public configPath setter after the
    # pattern was built once: _buildInteractionMatrices must serve the pattern of the final arrangement
    # (H_int / H_ext are cached per N_vials only in the code as it is and are not looked at here)
    oth = other_arr(case["arr"])
    try:
        S2 = Snowflake(k={"int": case["k_int"], "ext": case["k_ext"], "s0": 20}, N_vials=(nx, ny, nz),
                       configPath=config_for(case["arr"]))
        build_pattern(S2)
        S2.getVialGroup("corner")
        S2.configPath = config_for(oth)
        check_arr(S2, oth)
        e, d, x = _raw_pattern(S2)
        F2 = Snowflake(k={"int": case["k_int"], "ext": case["k_ext"], "s0": 20}, N_vials=(nx, ny, nz),
                       configPath=config_for(oth))
        fe, fd, fx = _raw_pattern(F2)
        obs["switched"] = {"arr": oth, "entries": e, "diag": d, "ext": x,
                           "same_as_fresh": bool(e == fe and d == fd and x == fx)}
    except HarnessError:
        raise
    except Exception as ex:
        obs["switched"] = {"arr": oth, "raise": core.exc_class(ex)}
    return obs


def run_model(drv, case):
    r = drv.call({"op": "topology", "arr": case["arr"], "nx": case["nx"], "ny": case["ny"], "nz": case["nz"]})
    if "error" in r:
        raise RuntimeError(r["error"])
    r["raise"] = r.get("raise")
    new, _ = redeclared(case)
    r2 = drv.call({"op": "topology", "arr": case["arr"], "nx": new[0], "ny": new[1], "nz": new[2]})
    if "error" in r2:
        raise RuntimeError(r2["error"])
    r["redecl"] = {"entries": r2["entries"], "deg": r2["deg"], "ext": r2["ext"]}
    new2, _ = redeclared_layers(case)
    r4 = drv.call({"op": "topology", "arr": case["arr"], "nx": new2[0], "ny": new2[1], "nz": new2[2]})
    if "error" in r4:
        raise RuntimeError(r4["error"])
    r["redecl_layers"] = {"entries": r4["entries"], "deg": r4["deg"], "ext": r4["ext"]}
    r3 = drv.call({"op": "topology", "arr": other_arr(case["arr"]), "nx": case["nx"], "ny": case["ny"], "nz": case["nz"]})
    if "error" in r3:
        raise RuntimeError(r3["error"])
    r["switched"] = {"entries": r3["entries"], "deg": r3["deg"], "ext": r3["ext"]}
    return r


def compare(case, impl, model):
    dis = []
    if impl.get("raise") or model.get("raise"):
        if impl.get("raise") != model.get("raise"):
            dis.append(f"exception: impl {impl.get('raise')} ({impl.get('stage')}) vs model {model.get('raise')}")
        return dis
    if impl["n"] != model["n"]:
        dis.append(f"matrix size: impl {impl['n']} vs model {model['n']}")
        return dis
    a = {(i, j): v for i, j, v in impl["entries"]}
    b = {(i, j): v for i, j, v in model["entries"]}
    if a != b:
        diff = sorted(set(a.items()) ^ set(b.items()))[:4]
        dis.append(f"off-diagonal entries differ (impl {len(a)} vs model {len(b)} non-zeros), e.g. {diff}")
    if impl["diag"] != [-d for d in model["deg"]]:
        dis.append("diagonal (row sums) differs")
    if impl["ext"] != model["ext"]:
        k = next((i for i, (x, y) in enumerate(zip(impl["ext"], model["ext"])) if x != y), None)
        dis.append(f"VIAL_EXT differs, first at vial {k}: impl {impl['ext'][k] if k is not None else '?'} "
                   f"vs model {model['ext'][k] if k is not None else '?'}")
    # scaling to conductances
    A, ki, ke = impl["A"], case["k_int"], case["k_ext"]
    want = {(i, j): v * ki * A for (i, j), v in b.items()}
    for i, d in enumerate(model["deg"]):
        if d:
            want[(i, i)] = -d * ki * A
    got = {(i, j): v for i, j, v in impl["H_int"]}
    if ki != 0 and set(want) != set(got):
        dis.append("H_int sparsity differs from k_int*A*(model pattern)")
    else:
        for key, v in got.items():
            if not close(v, want.get(key, 0.0)):
                dis.append(f"H_int{key}: impl {v!r} vs model {want.get(key, 0.0)!r}")
                break
    for i, (x, e) in enumerate(zip(impl["H_ext"], model["ext"])):
        if not close(x, e * ke * A):
            dis.append(f"H_ext[{i}]: impl {x!r} vs model {e * ke * A!r}")
            break
    sw, msw = impl.get("switched"), model.get("switched")
    if sw is not None and msw is not None:
        tag = f"object re-pointed to the {sw['arr']} arrangement after the pattern was built"
        if "raise" in sw:
            dis.append(f"{tag}: raises {sw['raise']}")
        elif ({(i, j): v for i, j, v in sw["entries"]} != {(i, j): v for i, j, v in msw["entries"]}
              or sw["diag"] != [-d for d in msw["deg"]] or sw["ext"] != msw["ext"]):
            dis.append(f"{tag}: _buildInteractionMatrices is not the pattern of the final arrangement")
    for key in ("redecl", "redecl_layers"):
        rd, md = impl.get(key), model.get(key)
        if rd is None or md is None:
            continue
        tag = f"object re-declared to {tuple(rd['shape'])}, accessors read as {'/'.join(rd['order'])}"
        if "raise" in rd:
            dis.append(f"{tag}: raises {rd['raise']}")
        else:
            wantH = {(i, j): v * ki * A for i, j, v in md["entries"]}
            for i, d in enumerate(md["deg"]):
                if d:
                    wantH[(i, i)] = -d * ki * A
            gotH = {(i, j): v for i, j, v in rd["H_int"]}
            if (ki != 0 and set(wantH) != set(gotH)) or any(not close(v, wantH.get(k2, 0.0)) for k2, v in gotH.items()):
                dis.append(f"{tag}: H_int is not the pattern of the new shape")
            if len(rd["H_ext"]) != len(md["ext"]) or any(not close(x, e * ke * A) for x, e in zip(rd["H_ext"], md["ext"])):
                dis.append(f"{tag}: H_ext is not the exposure of the new shape")
            if rd["ext"] != md["ext"]:
                dis.append(f"{tag}: VIAL_EXT is not the exposure of the new shape")
    return dis


# ---------------------------------------------------------------------------
# the property itself, evaluated on the implementation's output
# ---------------------------------------------------------------------------
def input_class(case):
    return "%s,%s,%s" % (case["arr"], "ny=1" if case["ny"] == 1 else "ny>1", "nz=1" if case["nz"] == 1 else "nz>1")


def predicates(case, impl):
    out = []
    site = "_buildInteractionMatrices"
    ic = input_class(case)
    arr, nx, ny, nz = case["arr"], case["nx"], case["ny"], case["nz"]
    N = nx * ny * nz
    if impl.get("raise"):
        out.append(Failure(clause="total", key=f"raises|{site}|{ic}|{impl['raise']}",
                           detail=f"{arr} batch {nx}x{ny}x{nz}: {impl.get('stage')} raises {impl['raise']}"))
        return out
    co = [coords(i, nx, ny) for i in range(N)]
    ent = {(i, j): v for i, j, v in impl["entries"]}
    # neighbours iff geometric neighbours
    for i in range(N):
        for j in range(N):
            if i == j:
                continue
            g = geom(arr, co[i], co[j])
            v = ent.get((i, j), 0)
            if (v != 0) != g:
                out.append(Failure(clause="adj_iff_geom", key=f"adj_iff_geom|{site}|{ic}",
                                   detail=f"{arr} {nx}x{ny}x{nz}: vials {i}{co[i]} and {j}{co[j]}: matrix entry {v}, "
                                          f"geometric neighbours: {g}"))
                break
        else:
            continue
        break
    for (i, j), v in ent.items():
        if v != 1 or ent.get((j, i)) != v:
            out.append(Failure(clause="pair_once", key=f"pair_once|{site}|{ic}",
                               detail=f"{arr} {nx}x{ny}x{nz}: entry ({i},{j}) = {v}, ({j},{i}) = {ent.get((j, i), 0)}"))
            break
    mx = max_nbr(arr, nz)
    for i in range(N):
        nb = sum(1 for j in range(N) if j != i and geom(arr, co[i], co[j]))
        if impl["ext"][i] != mx - nb:
            out.append(Failure(clause="ext_eq", key=f"ext_eq|{site}|{ic}",
                               detail=f"{arr} {nx}x{ny}x{nz}: VIAL_EXT[{i}] = {impl['ext'][i]}, max {mx} - neighbours {nb}"))
            break
    for key in ("redecl", "redecl_layers"):
        rd = impl.get(key)
        if rd is not None and not rd.get("same_as_fresh", False):
            first = rd["order"][0] if rd["order"] else "-"
            kind = "shelf<->pallet" if key == "redecl_layers" else "same-layers"
            out.append(Failure(clause="redeclared_shape", key=f"redeclared_shape|{kind},{first}-first|{ic}",
                               detail=f"{arr} object built for {nx}x{ny}x{nz}, then N_vials = {tuple(rd['shape'])} and "
                                      f"{', '.join(rd['order'])} read in this order: "
                                      + (f"raises {rd['raise']}" if "raise" in rd else
                                         f"H_int/H_ext/H_shelf/VIAL_EXT differ from a fresh object of that shape (sizes "
                                         f"served/fresh: {rd['n_int']}, {rd['n_ext']}, {rd['n_shelf']}; first exposures "
                                         f"served/fresh: {rd['ext_head']})")))
    sw = impl.get("switched")
    if sw is not None and not sw.get("same_as_fresh", False):
        out.append(Failure(clause="switched_arrangement", key=f"switched_arrangement|configPath|{ic}",
                           detail=f"{arr} object {nx}x{ny}x{nz}: pattern built, then configPath re-pointed to the "
                                  f"{sw['arr']} arrangement: "
                                  + (f"raises {sw['raise']}" if "raise" in sw else
                                     "_buildInteractionMatrices differs from a fresh object of the final configuration")))
    tol = 1e-9 * impl["heat_scale"]
    if abs(impl["heat_sum"]) > tol:
        out.append(Failure(clause="heat_cancels", key=f"heat_cancels|H_int|{ic}",
                           detail=f"sum(H_int @ T) = {impl['heat_sum']} for a test temperature vector"))
    if impl["row_sums"] > tol or impl["col_sums"] > tol:
        out.append(Failure(clause="row_col_sum_zero", key=f"row_col_sum_zero|H_int|{ic}",
                           detail=f"max |row sum| {impl['row_sums']}, max |column sum| {impl['col_sums']}"))
    return out


def classify(case, impl):
    tags = [f"arr={case['arr']}", "ny=1" if case["ny"] == 1 else "ny>1", "nz=1" if case["nz"] == 1 else "nz>1",
            "nx=1" if case["nx"] == 1 else "nx>1"]
    N = case["nx"] * case["ny"] * case["nz"]
    tags.append("N=1" if N == 1 else "N<=16" if N <= 16 else "N<=100" if N <= 100 else "N>100")
    if impl.get("raise"):
        tags.append(f"raise={impl['raise']}")
    return tags


def nontrivial(case, impl):
    return not impl.get("raise") and len(impl.get("entries", [])) > 0


def box(tier):
    return (7, 7, 4) if tier == "quick" else (12, 12, 5)


def exhaustive(tier):
    mx, my, mz = box(tier)
    return (f"all {2 * mx * my * mz} (arrangement, shape) pairs with 1 <= n_x <= {mx}, 1 <= n_y <= {my}, "
            f"1 <= n_z <= {mz}; the theorems cover all shapes, the tie of the model to the code is run on this box")


def cases(rng, tier):
    mx, my, mz = box(tier)
    for arr in ("square", "hexagonal"):
        for nz, ny, nx in itertools.product(range(1, mz + 1), range(1, my + 1), range(1, mx + 1)):
            yield dict(kind="box", arr=arr, nx=nx, ny=ny, nz=nz,
                       k_int=rng.choice([20, 1, 7.5, 0.3, 100]), k_ext=rng.choice([20, 0, 3.25, 55]))


def widen(rng, tier):
    for arr in ("square", "hexagonal"):
        for nx, ny, nz in [(13, 2, 1), (2, 13, 2), (1, 15, 1), (15, 1, 3), (9, 9, 6)]:
            yield dict(kind="widen", arr=arr, nx=nx, ny=ny, nz=nz, k_int=20, k_ext=20)
