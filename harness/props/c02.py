"""C02 Spatial model conserves energy through shelf, jacket and evaporation."""
from __future__ import annotations

import shim  # noqa: F401
import numpy as np

import core
from core import Failure
import snowing2dutil as u

ID = "C02"
LEAN_MODULE = "SnowProofs.Props.C02"
THEOREMS = [
    dict(name="Snow.C02.cool1D_conservative", strength="full",
         clause="1D cooling stage: rho*cp*dz*sum(T'-T) = dt*(q_shelf+q_e) exactly, any Nz >= 2, any field"),
    dict(name="Snow.C02.cool1D_conservative_model", strength="full",
         clause="the same telescoping identity for the executable 1D stencil (Snow.coolStencil)"),
    dict(name="Snow.C02.cool1D_conservative_field", strength="full",
         clause="the model's 1D cooling step (coolField1D): enthalpy change = dt*(K_shelf*(T_sh-T_0) + qEvap), qEvap = 0 "
                "outside VISF / the vacuum window (qEvap_none, qEvap_outside): shelf at the bottom, evaporation at the top "
                "in the window, insulated elsewhere"),
    dict(name="Snow.Stencil1D.qEvap_none", strength="full", clause="no evaporative flux unless the configuration is VISF (1D)"),
    dict(name="Snow.Stencil1D.qEvap_outside", strength="full", clause="no evaporative flux outside the vacuum window (1D)"),
    dict(name="Snow.C02.nucleation_adiabatic", strength="full",
         clause="2D nucleation jump: cp*m*(T*-T_nuc) = Dh*m_i(T*), T_nuc < T* < T_eq_l, 0 < m_i < m_w"),
    dict(name="Snow.C02.nucleation_adiabatic_0D1D", strength="full",
         clause="the same for the 0D/1D expressions (nucTeq, iceMassEq)"),
    dict(name="Snow.C02.nucleation_untouched", strength="full",
         clause="nodes that are not supercooled are untouched by the nucleation stage"),
    dict(name="Snow.C02.jacket_flux_scaling", strength="full",
         clause="the wall flux imposed by the side ghost value is (s/dr)*q_jacket, s = spacing used in the ghost value"),
    dict(name="Snow.C02.jacket_flux_current", strength="refutation-of-old-code",
         clause="current code (dz in the side ghost value): imposed flux (dz/dr)*q_jacket (F9)"),
    dict(name="Snow.C02.jacket_flux_counterexample", strength="refutation-of-old-code",
         clause="20 mm x 10 mm vial: dz/dr = 2, i.e. twice the jacket flux"),
    dict(name="Snow.C02.jacket_flux_repaired", strength="full",
         clause="repaired code (dr): imposed flux = q_jacket for every height and diameter"),
    dict(name="Snow.C02.cool2D_balance_partial", strength="partial",
         clause="2D cooling stage, per column: nodal changes = shelf + top ghost increments + explicit radial remainder "
                "(remainder not bounded; no r-weighted conservation law; solidification stage not covered)"),
    dict(name="Snow.C02.cool2D_conservation_partial", strength="partial",
         clause="repaired 2D cooling step: r-weighted (volume) sum of the nodal changes = r-weighted shelf/top ghost "
                "increments + per row the wall term, a centre-line term and an explicit remainder from dr = R/Nr != node "
                "spacing R/(Nr-1); no exact conservation law, remainder not bounded"),
    dict(name="Snow.C02.radial_row_sum", strength="full",
         clause="r-weighted radial operator of one row = flux-form boundary terms minus sum (r_{k+2}-r_{k+1}-dr)(T_{k+2}-T_{k+1})"),
    dict(name="Snow.C02.liquidus_crossing_not_conservative", strength="counterexample",
         clause="K8: one step of the 1D solidification STENCIL (Stencil1D.solid1D = the update of solidStep1D, with "
                "hand-supplied BETA = 1 + beta/(T-T_m)^2 and liquidus ice w_eq, not the model's record), two layers, "
                "insulated ends, uniform conductivity: layer 0 "
                "crosses the liquidus and the column's enthalpy changes by -3/11 + 49/3672 although no heat crosses the "
                "boundary (crossing term Dh*w_eq(T') + linearisation term); exact over the reals with rational data"),
    dict(name="Snow.C02.enthalpy_defect_identity", strength="full",
         clause="ALGEBRAIC identity for ARBITRARY ice fields w, w' and any Nz >= 2: enthalpy change = boundary heat + "
                "conduction remainder + sum of the per-node capacity defects d_j of the 1D solidification stencil"),
    dict(name="Snow.C02.enthalpy_defect_identity_model", strength="full",
         clause="the same for the model's own step: temperature and ice field produced by Snow.solidStep1D, its cp, "
                "lambda_eff, BETA and boundary fluxes K_shelf*(T_sh-T_0), qEvap"),
    dict(name="Snow.C02.capacity_defect_crossing_model", strength="full",
         clause="K8 term on the model: a node of solidStep1D that is not supercooled and ice-free before the step and "
                "supercooled after it has BETA = 1 and defect -Dh*iceMassEq(T')/mass"),
    dict(name="Snow.C02.capacity_defect_crossing", strength="by-construction",
         clause="the defect expression with BETA = 1 and no ice before is -Dh*w_eq(T') (definitional rearrangement)"),
    dict(name="Snow.C02.capacity_defect_on_liquidus", strength="full",
         clause="capacity defect of a node that stays on the liquidus: exactly Dh*(c/m)*dT^2/((T_m-T')(T_m-T)^2) "
                "(equality; second order in dT)"),
    dict(name="Snow.C02.capacity_defect_on_liquidus_nonneg", strength="full",
         clause="... and that term is >= 0 when Dh*c/m >= 0 and T, T' < T_m"),
    dict(name="Snow.C02.solid1D_balance_partial", strength="partial",
         clause="1D solidification stage, any Nz >= 2: rho*dz*sum cp_j*BETA_j*(T'_j-T_j) = dt*(q_shelf+q_e) + (dt/dz)*R "
                "with the explicit non-conservative remainder R (derivative-product terms minus the flux-form part); "
                "R is not bounded"),
    dict(name="Snow.C02.solid1D_is_model", strength="full",
         clause="the stencil of solid1D_balance_partial is the temperature update of the executable 1D model "
                "(Snow.solidStep1D), node by node"),
    dict(name="monitored:energy_balance_few_percent", strength="monitored",
         clause="balance within a few percent at every reported time in the solidification stage and in 2D: enthalpy "
                "accounting on real recorded fields"),
    dict(name="monitored:boundary_fluxes_applied", strength="monitored",
         clause="the flux actually applied at the top, at the bottom and (jacket) at the side wall, recovered from "
                "consecutive recorded fields, equals the boundary condition, 1D and 2D, both stages"),
    dict(name="Snow.C02.nonvacuous", strength="nonvacuity",
         clause="hypotheses of nucleation_adiabatic hold for the default solution at -10 C"),
]
TRUSTED = [
    "Lean 4.33 kernel; axioms per theorem listed under coverage.axioms",
    "theorems are over the reals: IEEE rounding is not modelled",
    "hand-written model SnowModel/Snowing2D.lean tied to Snowing._run_2D by this differential check "
    "(whole recorded fields, rtol 1e-9); 1D stencil model SnowModel/Snowing1D.lean tied by C08/C13",
    "the enthalpy accounting of the search (harness/snowing2dutil.energy_series): written from the published balance, "
    "cell volumes of the reported grid, fluxes recomputed from the reported fields",
]
ASSUMPTIONS = [
    "known finding K8 (open): the solidification scheme loses rho*Dh*w_i per node that crosses the liquidus after "
    "nucleation; the predicate reports it under its own key only when the whole excess is located at those node updates "
    "(balance holds without them); reproducer corpus/C02/k8_liquidus_crossing_1D_shelf_50mm.json",
    "every case is built to complete: a raise of the real code is a failure (raises|site|class); the time step the "
    "harness derives must be the one of the reported stamps, otherwise observation_broken",
    "nucleation_adiabatic(_0D1D) assume depression = k_f/M_s * mass_solute/mass_water (hdep) -- a relation between "
    "entries of Snowing.const established by calculateDerived (C07.DerivedOK.hdep derives it from the derived-constant "
    "relations; C02.nonvacuous instantiates every hypothesis on the default configuration)",
    "'within a few percent' is decided by evaluation on real runs, not by a theorem: tolerance 3 % of the heat "
    "exchanged so far + the enthalpy of one grid layer (1/Nz of the product; + 1/Nr with a cooled wall)",
    "runs have <= 10 000 steps so that every step is recorded",
    "clause top_boundary_flux: the flux applied at the top is recovered exactly (1e-2 W/m2) from consecutive recorded "
    "fields by inverting the top-node update; vacuum windows before / around / after nucleation",
    "vial geometries off the default aspect ratio; tall narrow vials (H > D) only in the thorough tier (cost)",
]
RULE = ("histories (jacket runs sharing one heat-transfer dict with other air gaps / s0, configPath re-pointed on one "
        "object; the balance is taken against the run's OWN K_wall) and 2D runs (shelf / VISF / jacket) and 1D runs (shelf / VISF) on vials off the default aspect ratio with "
        "K_shelf 500-2000, fast programs, air gaps 1e-5..1e-3, a fixed list plus random ones; a case is non-trivial "
        "when the run completes (nucleation and solidification) with every step recorded")
EXPLANATION = ("Lean theorems over the reals for the exact parts (1D cooling stage, nucleation jump, jacket ghost "
               "value) + differential check of the 2D model against _run_2D + enthalpy accounting on real fields")
PARALLEL = True

# --- regeneration tie (harness/gentie.py): the formulas of the hand model SnowModel/Snowing2D.lean are re-derived
# from /repo's source on every run and proved equal to the generated text (lean/SnowProofs/Props/GenTie/)
import gentie  # noqa: E402
THEOREMS = THEOREMS + gentie.theorems("2D")
extra_lean_targets = list(globals().get("extra_lean_targets", [])) + [gentie.module("2D")]
TRUSTED = TRUSTED + ["harness/translate.py formula extraction (single assignments of the run loop -> Lean definitions; "
                     "anything outside its tiny language is a TranslatorError)"]


def regenerate():
    gentie.regenerate("2D")

LEVEL_TEXT = ("PARTIAL proof. Lean 4 theorems (exact reals) about the executable models: the 1D cooling stage conserves "
              "energy exactly (telescoping identity with ghost points, any Nz >= 2); the nucleation jump is adiabatic "
              "pointwise in 0D/1D/2D with T_nuc < T* < T_eq_l and 0 < m_i < m_w; the side ghost value imposes "
              "(s/dr)*q_jacket, i.e. (dz/dr)*q_jacket in the code before the repair F9 and q_jacket after it; 2D cooling "
              "stage: per-column identity with an explicit, unbounded radial remainder. NOT proved: the balance "
              "'within a few percent' in the solidification stage and in 2D -- this clause is decided by an independent "
              "enthalpy accounting on the real recorded fields of every run (search, tolerance 3 % + one grid layer). "
              "The 2D model is tied to _run_2D on every run by comparing whole recorded fields (rtol 1e-9).")


def cases(rng, tier):
    for c in u.standard_cases(tier, core.env_seed()):
        yield c
    # object / dict histories: the balance of a run is evaluated against the run's OWN coefficients
    if tier != "quick":
        # known finding K8 in 2D and for shelf/jacket (the 1D reproducer is corpus/C02/k8_*.json)
        yield u._base("shelf", 0.06, 0.12, 400, 9000, start=20, stop=-60, rate=0.5)
        yield u._base("VISF", 0.05, 0.1, 400, 6000, dim="spatial_1D", start=20, stop=-60, rate=0.5,
                      visf=dict(t_vac_start=0.01, t_vac_duration=0.08))
    a = u._base("jacket", 0.015, 0.03, 1000, 350, jacket=dict(air_gap=1e-3, lambda_air=0.025))
    b = u._base("jacket", 0.015, 0.03, 1000, 350, jacket=dict(air_gap=1e-5, lambda_air=0.025))
    yield dict(b, kind="shared_k", before=[a])          # two jacket runs sharing one k dict, other air gap
    if tier != "quick":
        yield dict(b, kind="repoint", before=a)          # one object, configPath re-pointed to another air gap
        c = u._base("jacket", 0.015, 0.03, 500, 450, jacket=dict(air_gap=1e-4, lambda_air=0.025))
        yield dict(c, kind="shared_k", before=[a, b])    # ... and another s0


def _own(case):
    return {k: v for k, v in case.items() if k not in ("kind", "before", "_corpus")}


def run_impl(case):
    kind = case.get("kind")
    if kind == "shared_k":
        return u.summarize(_own(case), u.run_shared_k(list(case["before"]) + [_own(case)]))
    if kind == "repoint":
        return u.summarize(_own(case), u.run_repoint(case["before"], _own(case)))
    return u.observe(case)


def run_model(drv, case):
    if case["dim"] != "spatial_2D":
        return {"skip": True}
    return u.run_model(drv, _own(case))


def compare(case, impl, model):
    if model.get("skip"):
        return []
    return u.compare_runs(impl, model)


def _site(case):
    site = "_run_2D" if case["dim"] == "spatial_2D" else "_run_1D"
    return site + ("@" + case["kind"] if case.get("kind") else "")


def predicates(case, impl):
    out = []
    site0 = _site(case)
    if impl.get("raise"):
        # every case of this check is built to complete (programme long enough by construction): a raise of the
        # real code is a failure of the run, whatever the model does
        out.append(Failure(clause="total", key=f"raises|{site0}|{impl['raise']}",
                           detail=f"the run raises {impl['raise']} ({impl.get('stage')}) on a process that is long "
                                  f"enough to nucleate and solidify"))
        return out
    if impl.get("dt_consistent") is False:
        out.append(Failure(clause="observation", key=f"observation_broken|{site0}|time-step",
                           detail="the reported time stamps are not multiples of the time step this harness derives from "
                                  "the constants (dt formula of the code changed?): the boundary-flux clauses cannot be "
                                  "evaluated"))
    if impl.get("time") and impl.get("t_tot") is not None and impl.get("dt"):
        tmax = max(impl["time"]) * 3600.0
        if tmax > impl["t_tot"] + 2 * impl["dt"] + 1e-9 * max(1.0, impl["t_tot"]):
            out.append(Failure(clause="reported_time_within_process", key=f"reported_time_within_process|{site0}|{case['config']}",
                               detail=f"last reported time {tmax:.1f} s of a process of t_tot = {impl['t_tot']:.1f} s"))
    b = impl.get("bounds") or {}
    if b.get("ice_at_warm_nodes", 0) > 0 or b.get("liquidus_residual", 0.0) > 1e-9:
        # the balance counts "the latent heat of the ice present": the reported (T, w_i) must be a state of the
        # enthalpy function, i.e. the ice fraction that belongs to the reported temperature
        out.append(Failure(
            clause="enthalpy_state_consistent", key=f"enthalpy_state_consistent|{site0}|{case['config']}",
            detail=(f"{b.get('ice_at_warm_nodes', 0)} reported nodes warmer than T_eq_l carry ice; ice fraction and "
                    f"temperature are off the liquidus by up to {b.get('liquidus_residual', 0.0):.3g}: latent heat "
                    f"of ice that has melted is still counted (enthalpy off by Dh*w_i per such node)")))
    e = impl.get("energy")
    if not e:
        return out
    site = _site(case)
    cfg = case["config"]
    aspect = "default-aspect" if abs(case["height"] / case["diameter"] - 1) < 1e-9 else "off-aspect"
    if e["ratio"] > 1.0 and e.get("ratio_without_crossing", 9.9) <= 1.0 and e.get("crossings", 0) > 0:
        # known finding K8: the whole excess sits at nodes that cross the liquidus after nucleation (free ice)
        plain = "_run_2D" if case["dim"] == "spatial_2D" else "_run_1D"
        out.append(Failure(
            clause="energy_balance", key=f"energy_balance|{plain}|liquidus-crossing-free-ice",
            detail=(f"enthalpy change {e['dH']:.4g} J vs boundary heat {e['Q']:.4g} J at reported row {e['row']}: |dH-Q| is "
                    f"{e['ratio']:.2f} x the tolerance; {e['cross']:.4g} J of it disappeared at the {e['crossings']} node "
                    f"updates in which a node crossed the liquidus after nucleation (step taken with the capacity of the "
                    f"unfrozen state, node then given the equilibrium ice of its new temperature); without that term the "
                    f"balance holds ({e['ratio_without_crossing']:.2f} x the tolerance); "
                    f"{100 * (e.get('unsupercooled_at_nucleation') or 0):.0f} % of the nodes were not supercooled at nucleation; "
                    f"final dH/Q = {e['final_dH_over_Q']}")))
    elif e["ratio"] > 1.0:
        out.append(Failure(
            clause="energy_balance", key=f"energy_balance|{site}|{cfg}|{aspect}",
            detail=(f"enthalpy change {e['dH']:.4g} J vs boundary heat {e['Q']:.4g} J at reported row {e['row']}: "
                    f"|dH-Q| is {e['ratio']:.2f} x the tolerance (3% of {e['Qabs']:.4g} J + grid term {e['grid']:.4g} J);"
                    f" final dH/Q = {e['final_dH_over_Q']}")))
    tf = impl.get("topflux")
    if tf and tf.get("n") and tf["score"] > 1.0:
        out.append(Failure(
            clause="top_boundary_flux", key=f"top_boundary_flux|{site}|{cfg}|{tf['stage']}",
            detail=(f"{tf['stage']} stage, reported row {tf['row']} (top temperature {tf['T_top']:.3f} K): the heat flux "
                    f"applied at the top surface, inferred from two consecutive fields, is {tf['q_applied']:.6g} W/m2; the "
                    f"boundary condition of the model (evaporation inside the vacuum window of a VISF run, insulated "
                    f"otherwise) gives {tf['q_expected']:.6g} W/m2")))
    bf = impl.get("botflux")
    if bf and bf.get("n") and bf["score"] > 1.0:
        out.append(Failure(
            clause="bottom_boundary_flux", key=f"bottom_boundary_flux|{site}|{cfg}|{bf['stage']}",
            detail=(f"{bf['stage']} stage, reported row {bf['row']}: the heat flux applied at the bottom, inferred from two "
                    f"consecutive fields, is {bf['q_applied']:.6g} W/m2; K_shelf*(T_shelf - T_bottom) = {bf['q_expected']:.6g} "
                    f"W/m2 (T_bottom {bf['T_bottom']:.3f} K, T_shelf {bf['T_shelf']:.3f} K)")))
    wf = impl.get("wallflux")
    if wf and wf.get("n") and wf["score"] > 1.0:
        out.append(Failure(
            clause="wall_boundary_flux", key=f"wall_boundary_flux|{site}|{cfg}|{wf['stage']}",
            detail=(f"{wf['stage']} stage, reported row {wf['row']}: the heat flux applied at the side wall (mid height), "
                    f"inferred from two consecutive fields, is {wf['q_applied']:.6g} W/m2; K_wall*(T_shelf - T_wall) = "
                    f"{wf['q_expected']:.6g} W/m2 with the run's own K_wall = {wf['K_wall']:.5g}")))
    if abs(e["jump_dH"]) > 1e-6 * max(e["jump_scale"], 1e-30):
        out.append(Failure(
            clause="nucleation_adiabatic", key=f"nucleation_adiabatic|{site}|{cfg}",
            detail=f"enthalpy jump {e['jump_dH']:.4g} J across the nucleation row (heat exchanged in the run: "
                   f"{e['jump_scale']:.4g} J)"))
    return out


def classify(case, impl):
    if case.get("kind"):
        return [f"kind={case['kind']}", f"config={case['config']}"] + (["raise=" + impl["raise"]] if impl.get("raise") else [])
    tags = [f"dim={case['dim']}", f"config={case['config']}", f"H/D={case['height'] / case['diameter']:.2f}"]
    if impl.get("raise"):
        tags.append("raise=" + impl["raise"])
    elif impl.get("energy", {}).get("strided"):
        tags.append("strided")
    return tags


def nontrivial(case, impl):
    return not impl.get("raise") and not impl.get("energy", {}).get("strided", False)
