"""Shared helpers for the Snowflake time-loop properties (C01, C03, C06, …).

* building REAL `Snowflake` objects from a JSON-able case (partial YAML configs are
  written to a temporary file and removed again),
* the generator proxy that is installed on the constructed object
  (`S._rng = Proxy(...)`, never an edit of /repo): it RECORDS the draws of the real
  generator or SCRIPTS them,
* extraction of everything the Lean model takes as input from the real object
  (derived constants, interaction structure, shelf coefficients as used, xi_v, dice),
* the request for the driver ops `flakeRun` / `flakeStep`,
* an INDEPENDENT Python statement of the three transitions (from
  docs_src/development.rst) used by the predicates.
"""
from __future__ import annotations

import math
import os
import sys
import tempfile

import shim  # noqa: F401
import numpy as np

import core
from core import f2b, b2f, close

CONST_KEYS = ["solid_fraction", "cp_s", "cp_w", "cp_i", "cp_solution", "depression", "mass",
              "alpha", "beta_solution", "T_eq", "T_eq_l", "hl", "b", "V"]


# ---------------------------------------------------------------------------
# generator proxy
# ---------------------------------------------------------------------------
class ObservationError(Exception):
    """the harness could not OBSERVE the real object (an attribute it reads is gone): an
    infrastructure error of the check, never a verdict about the property"""


def _private(S, name):
    if not hasattr(S, name):
        raise ObservationError(f"Snowflake has no attribute {name!r} any more: the harness must be adapted")
    return getattr(S, name)


class Proxy:
    """Stands in for `Snowflake._rng`.

    mode 'record' : delegates to the wrapped real generator and records every call
    mode 'script' : `.random(n)` returns values chosen by `script(ctx)`; `ctx` carries the
                    call index, n and – when the caller's frame exposes them – the step
                    index `k`, the probabilities `P` of the candidates and their indices.
                    `.normal` / `.choice` still delegate to the real generator.
    """

    def __init__(self, real, mode="record", script=None):
        self.real = real
        self.mode = mode
        self.script = script
        self.calls = []       # [(k or None, [values])] for .random
        self.normals = []     # [[values]] for .normal
        self.choices = 0
        self.ctx_seen = 0     # how many calls exposed P to the script
        self.ctx_missing = 0  # scripted calls (n > 0) for which the caller's frame did not expose P

    def _ctx(self, n):
        ctx = {"call": len(self.calls), "n": int(n), "k": None, "P": None, "cand": None}
        try:
            f = sys._getframe(2)
            loc = f.f_locals
            if "k" in loc:
                ctx["k"] = int(loc["k"])
            if "P" in loc and "nucleationCandidatesMask" in loc:
                m = np.asarray(loc["nucleationCandidatesMask"], dtype=bool)
                ctx["cand"] = [int(i) for i in np.where(m)[0]]
                ctx["P"] = [float(x) for x in np.asarray(loc["P"])[m]]
        except Exception:
            pass
        return ctx

    def random(self, n=None):
        scalar = n is None
        nn = 1 if scalar else int(n)
        ctx = self._ctx(nn)
        if self.mode == "script" and self.script is not None:
            if ctx["P"] is not None:
                self.ctx_seen += 1
            elif nn > 0:
                self.ctx_missing += 1
            vals = np.asarray(self.script(ctx), dtype=float).reshape(nn)
        else:
            vals = np.asarray(self.real.random(nn), dtype=float)
        self.calls.append((ctx["k"], [float(x) for x in vals]))
        return float(vals[0]) if scalar else vals

    def normal(self, *a, **kw):
        v = self.real.normal(*a, **kw)
        self.normals.append([float(x) for x in np.asarray(v, dtype=float).ravel()])
        return v

    def choice(self, *a, **kw):
        self.choices += 1
        return self.real.choice(*a, **kw)

    def __getattr__(self, name):  # anything else: the real generator
        return getattr(self.real, name)


# ---------------------------------------------------------------------------
# building the real objects
# ---------------------------------------------------------------------------
def make_opcond(oc):
    from ethz_snow.operatingConditions import OperatingConditions

    cooling = {"rate": oc["rate"], "start": oc["start"], "end": oc["stop"]}
    holds = oc.get("holds")
    holding = None if not holds else [dict(temp=h[0], duration=h[1]) for h in holds]
    return OperatingConditions(t_tot=oc["t_tot"], cooling=cooling, holding=holding,
                               cnTemp=oc.get("cnTemp"))


def make_flake(case, storeStates="all"):
    """Construct the real Snowflake of a case (fresh dicts: the code mutates `k`)."""
    import yaml
    from ethz_snow.snowflake import Snowflake

    cfg_path = None
    cfg0 = case["pre_config"] if "pre_config" in case else case.get("config")
    if cfg0:
        fd, cfg_path = tempfile.mkstemp(suffix=".yaml", prefix="verif_flake_")
        with os.fdopen(fd, "w") as f:
            yaml.safe_dump(cfg0, f)
    try:
        kdict = dict(case["k"])
        for key, tname in (case.get("k_types") or {}).items():     # numpy-integer / float coefficients
            if key in kdict:
                kdict[key] = getattr(np, tname)(kdict[key])
        kw = dict(
            k=kdict,
            N_vials=tuple(case["N_vials"]),
            storeStates=storeStates,
            solidificationThreshold=case.get("threshold", 0.9),
            dt=case["dt"],
            seed=case.get("seed", 2021),
            seed_v=case.get("seed_v", 2024),
            opcond=make_opcond(case["opcond"]),
            configPath=cfg_path,
            initIce=case.get("initIce", "indirect"),
        )
        if case.get("store") is not None:
            kw["storeStates"] = list(case["store"])     # recorded subset, in the user's order
        user_is = None
        if case.get("T0") is not None:
            user_is = {"temp": case["T0"]}
            kw["initialStates"] = user_is
        # (without T0 the DEFAULT ARGUMENT of the constructor is used)
        S = Snowflake(**kw)
        S._verif_user_initialStates_ok = (user_is is None) or (user_is == {"temp": case["T0"]})
    finally:
        if cfg_path:
            os.unlink(cfg_path)
    return S


def apply_current(S, case, pre):
    """put the case's current settings on an object that was built and run under `pre`"""
    if "opcond" in pre:
        oc = case["opcond"]
        if pre.get("how") == "mutate":
            S.opcond.t_tot = oc["t_tot"]
            S.opcond.cooling["rate"] = oc["rate"]
            S.opcond.cooling["start"] = oc["start"]
            S.opcond.cooling["end"] = oc["stop"]
            S.opcond.holding = (None if not oc.get("holds")
                                else [dict(temp=h[0], duration=h[1]) for h in oc["holds"]])
            S.opcond.cnTemp = oc.get("cnTemp")
        else:
            S.opcond = make_opcond(oc)
    if "N_vials" in pre:
        S.N_vials = tuple(case["N_vials"])      # re-declared shape (same number of vials)
    if "seed" in pre:
        S.seed = case.get("seed", 2021)
    if "dt" in pre:
        S.dt = case["dt"]
    if "T0" in pre:
        S.T_k_0 = case["T0"]
    if "k" in pre:
        for key in ("s0", "s_sigma_rel"):
            if key in case["k"]:
                S.k[key] = case["k"][key]
            elif key in S.k:
                del S.k[key]


def xi_of(seed_v, n):
    """the vial-dependent standard normals, by the same numpy/scipy calls as run()"""
    from scipy.stats import norm

    st = np.random.get_state()
    np.random.seed(seed_v)
    r = np.random.rand(n)
    np.random.set_state(st)
    return norm.ppf(r)


def interaction(S):
    """neighbour lists (with multiplicity) and external-face counts of the real object"""
    M, ext = S._buildInteractionMatrices()
    M = np.asarray(M.todense())
    n = M.shape[0]
    nbrs = []
    for i in range(n):
        row = []
        for j in range(n):
            if j != i and M[i, j] != 0:
                w = int(round(M[i, j]))
                row += [j] * max(w, 0)
        nbrs.append(row)
    return nbrs, [int(round(x)) for x in np.asarray(ext).ravel()], M


def _decoy(case):
    from ethz_snow.snowflake import Snowflake
    from ethz_snow.operatingConditions import OperatingConditions

    st = case["opcond"]["start"] + 7.25
    oc = OperatingConditions(t_tot=10, cooling={"rate": 0.5, "start": st, "end": st - 20})
    Snowflake(k={"int": 1, "ext": 1, "s0": 1}, N_vials=(1, 1, 1), dt=1, opcond=oc)


def _defaults_intact():
    """the mutable default arguments of the constructor still have their documented values"""
    import inspect
    from ethz_snow.snowflake import Snowflake

    d = inspect.signature(Snowflake.__init__).parameters
    return (d["initialStates"].default == {"temp": None, "sigma": None}
            and d["k"].default == {"int": 20, "ext": 20, "s0": 20, "s_sigma_rel": 0.1})


def _sparse(M):
    """non-zero entries [i, j, value] of a (sparse) matrix"""
    D = np.asarray(M.todense()) if hasattr(M, "todense") else np.asarray(M)
    ii, jj = np.nonzero(D)
    return [[int(i), int(j), float(D[i, j])] for i, j in zip(ii, jj)]


def run_real(case, script=None):
    """Run the REAL Snowflake; returns the observation + everything the model needs."""
    import contextlib
    import io

    mode = "script" if script is not None else "record"
    with contextlib.redirect_stdout(io.StringIO()):   # the code prints warnings
        pre = case.get("pre")
        # cross-object: another object with the constructor's defaults and ANOTHER start temperature
        # is built first in this process; objects must not influence each other
        _decoy(case)
        S = make_flake({**case, **pre} if pre else case)
        defaults_ok = _defaults_intact()
        if pre:
            # object history: a first run under the `pre` settings, then the CURRENT settings of
            # the case are put on the same object the way a user would (attribute assignment /
            # in-place mutation); the observed run is the second one
            S.run()
            apply_current(S, case, pre)
        if "pre_config" in case:
            # object history: a first run under `pre_config` (other kinetics), then the
            # configuration in force for the observed run is assigned through `configPath`
            import yaml

            S.run()
            fd, path2 = tempfile.mkstemp(suffix=".yaml", prefix="verif_flake_")
            with os.fdopen(fd, "w") as f:
                yaml.safe_dump(case.get("config") or {}, f)
            try:
                S.configPath = path2
            finally:
                os.unlink(path2)
        # run() restarts its generator (`np.random.default_rng(self.seed)`): the proxy is
        # installed by patching the factory in THIS process for the duration of the run;
        # older trees that keep `self._rng` get the proxy assigned directly.
        made = []
        orig = np.random.default_rng

        def factory(*a, **kw):
            q = Proxy(orig(*a, **kw), mode, script)
            made.append(q)
            return q

        assigned = Proxy(S._rng, mode, script)
        S._rng = assigned
        np.random.default_rng = factory
        try:
            S.run()
        finally:
            np.random.default_rng = orig
        px = S._rng if isinstance(S._rng, Proxy) else (made[-1] if made else assigned)
    n = S.N_vials_total
    st = S.stats
    nbrs, ext, _ = interaction(S)
    ksh = np.ones(n) * np.asarray(S.k["shelf"], dtype=float)
    Hs = np.ones(n) * np.asarray(S.H_shelf, dtype=float)       # public accessors where they exist
    c = S.const
    a, cc = float(c["a"]), float(c["c"])
    xi = xi_of(S.seed_v, n)
    kb = 10 ** (-(a + xi * cc))
    obs = {
        "raise": None,
        "n": n,
        "N": int(np.asarray(S.X_T).shape[1]),
        "t": [float(x) for x in _private(S, "_t")],
        "XT": np.asarray(S.X_T).T.tolist(),          # [step][vial]
        "Xsigma": np.asarray(S.X_sigma).T.tolist(),
        "tNuc": [float(x) for x in st["t_nucleation"]],
        "TNuc": [float(x) for x in st["T_nucleation"]],
        "tSol": [float(x) for x in st["t_solidification"]],
        "calls": [[k, v] for k, v in px.calls],
        "normal_calls": len(px.normals),
        "ctx_seen": px.ctx_seen, "ctx_missing": px.ctx_missing,
        "Tshelf": [float(x) for x in S.opcond.tempProfile(S.dt)],
        "cnt": (None if math.isinf(float(S.opcond.cnt)) else float(S.opcond.cnt)),
        # inputs of the model, read from the real object
        "consts": {k: float(c[k]) for k in CONST_KEYS},
        "a": a, "c": cc, "A": float(c["A"]),
        "arrangement": str(c["vial_arrangement"]),
        "xi": [float(x) for x in xi],
        "kb": [float(x) for x in kb],
        "nbrs": nbrs, "ext": ext,
        "kShelf": [float(x) for x in ksh],
        "Hshelf": [float(x) for x in Hs],
        # the coefficients the USER passed (not what the object holds after construction/run)
        "kInt": float(case["k"]["int"]), "kExt": float(case["k"]["ext"]),
        "k_obj": {key: float(S.k[key]) for key in ("int", "ext") if key in S.k},
        # T_k_0 implied by the CONFIGURATION (given temperature, else the start temperature of the
        # program); what the object holds is an observation
        "T0": float(case["T0"] if case.get("T0") is not None else case["opcond"]["start"]),
        "T0_obj": float(S.T_k_0),
        "defaults_ok": bool(defaults_ok),
        "userdict_ok": bool(getattr(S, "_verif_user_initialStates_ok", True)),
        "stored_idx": (sorted(int(i) for i in case["store"]) if case.get("store") is not None else None),
        # recorded vials implied by the configuration ('all', or the listed vial indices)
        "mask": ([True] * n if case.get("store") is None else [i in set(case["store"]) for i in range(n)]),
        "mask_obj": [bool(x) for x in _private(S, "_storageMask")],
        "threshold": float(S.solidificationThreshold),
        "initIce": S.initIce,
        "dt": float(S.dt),
        # what the USER configured (inputs of the model; nothing derived by the real object)
        "initIce_arg": case.get("initIce", "indirect"),
        "s0_arg": float(case["k"].get("s0", 0.0)),
        "sRel_arg": (None if case["k"].get("s_sigma_rel") is None else float(case["k"]["s_sigma_rel"])),
        "nz": int(case["N_vials"][2]),
        "normals": (px.normals[-1] if px.normals else []),
        # declared geometry (the model computes the interaction structure of this shape itself)
        "arr_arg": str(layered_config(case.get("config"))["snowfall_parameters"]["vial_arrangement"]),
        "shape": [int(x) for x in case["N_vials"]],
        # conductance operators AS USED by the run
        "Hint": _sparse(S.H_int),
        "Hext": [float(x) for x in np.ones(n) * np.asarray(S.H_ext, dtype=float)],
    }
    return obs


# ---------------------------------------------------------------------------
# model requests
# ---------------------------------------------------------------------------
def _params(impl):
    return {
        "consts": {k: f2b(v) for k, v in impl["consts"].items()},
        "a": f2b(impl["a"]), "c": f2b(impl["c"]), "xi": [f2b(x) for x in impl["xi"]],
        "arr": impl["arr_arg"], "shape": impl["shape"],
        "kInt": f2b(impl["kInt"]), "kExt": f2b(impl["kExt"]),
        # shelf coefficients are DERIVED by the model from s0, s_sigma_rel and the recorded normals
        "s0": f2b(impl["s0_arg"]), "sRel": (None if impl["sRel_arg"] is None else f2b(impl["sRel_arg"])),
        "normals": [f2b(x) for x in impl["normals"]], "nz": impl["nz"],
        "A": f2b(impl["A"]), "dt": f2b(impl["dt"]), "threshold": f2b(impl["threshold"]),
        "initIce": impl["initIce_arg"],
    }


def run_request(case, impl, out="full"):
    oc = case["opcond"]
    r = {"op": "flakeRun", "out": out}
    r.update(_params(impl))
    r.update({
        "t_tot": f2b(oc["t_tot"]), "start": f2b(oc["start"]), "stop": f2b(oc["stop"]),
        "rate": f2b(oc["rate"]), "isList": True,
        "T0": f2b(impl["T0"]), "nVials": impl["n"],
        "dice": [[f2b(x) for x in v] for _, v in impl["calls"]],
        "mask": impl["mask"],
    })
    if oc.get("holds"):
        r["holds"] = [[f2b(h[0]), f2b(h[1])] for h in oc["holds"]]
    if oc.get("cnTemp") is not None:
        r["cnTemp"] = f2b(oc["cnTemp"])
    return r


def _optf(xs):
    return [None if x is None else b2f(x) for x in xs]


def run_model(drv, case, impl):
    r = drv.call(run_request(case, impl))
    if "error" in r:
        raise RuntimeError(r["error"])
    if "raise" in r:
        return {"raise": r["raise"]}
    out = {
        "raise": None, "N": r["N"], "kCN": r["kCN"], "tlen": r["tlen"],
        "kb": [b2f(x) for x in r["kb"]], "kShelf": [b2f(x) for x in r["kShelf"]],
        "nbrs": r["nbrs"], "ext": r["ext"],
        "tNuc": _optf(r["tNuc"]), "TNuc": _optf(r["TNuc"]), "tSol": _optf(r["tSol"]),
        "nucStep": r["nucStep"], "draws": r["draws"], "diceLeft": r["diceLeft"],
        "margins": [b2f(x) for x in r["margins"]],
    }
    if "t" in r:
        out["t"] = [b2f(x) for x in r["t"]]
        out["Tshelf"] = [b2f(x) for x in r["Tshelf"]]
        out["XT"] = [[b2f(x) for x in col] for col in r["XT"]]
        out["Xsigma"] = [[b2f(x) for x in col] for col in r["Xsigma"]]
    return out


def step_model(drv, impl, T, sigma, k, Tsh, draw, isCN=False, stats=None):
    r = {"op": "flakeStep"}
    r.update(_params(impl))
    r.update({"T": [f2b(x) for x in T], "sigma": [f2b(x) for x in sigma], "k": int(k),
              "Tsh": f2b(Tsh), "draw": [f2b(x) for x in draw], "isCN": bool(isCN)})
    if stats:
        for key in ("tNuc", "TNuc", "tSol"):
            if key in stats:
                r[key] = [None if (x is None or math.isnan(x)) else f2b(x) for x in stats[key]]
    o = drv.call(r)
    if "error" in o:
        raise RuntimeError(o["error"])
    res = {}
    for key in ("T", "sigma", "q", "qInt", "midT", "midSigma", "P", "dice", "kb"):
        res[key] = [b2f(x) for x in o[key]]
    for key in ("tNuc", "TNuc", "tSol"):
        res[key] = _optf(o[key])
    res["cand"] = o["cand"]
    res["draw"] = o["draw"][0]
    return res


# ---------------------------------------------------------------------------
# comparison of a whole run
# ---------------------------------------------------------------------------
def impl_nuc_steps(impl):
    """step index at which each vial nucleated, from the real run's trajectories"""
    N = impl["N"]
    Xs = impl["Xsigma"]
    out = []
    if impl.get("stored_idx") is not None:
        return [None if math.isnan(t) else int(round(t / impl["dt"])) - 1 for t in impl["tNuc"]]
    for i in range(impl["n"]):
        if math.isnan(impl["tNuc"][i]):
            out.append(None)
            continue
        first = next((k for k in range(N) if Xs[k][i] != 0), None)
        out.append(N - 1 if first is None else first - 1)
    return out


def _optclose(a, b):
    an = a is None or (isinstance(a, float) and math.isnan(a))
    bn = b is None or (isinstance(b, float) and math.isnan(b))
    if an or bn:
        return an and bn
    return close(a, b)


def compare_run(case, impl, model, tie=1e-9):
    """every (vial, step) value with rtol 1e-9, step indices exactly; a first difference that
    sits next to a float decision whose margin is below `tie` is reported as 'TIE: …'."""
    dis = []
    if impl.get("raise") or model.get("raise"):
        if impl.get("raise") != model.get("raise"):
            dis.append(f"exception: impl {impl.get('raise')} vs model {model.get('raise')}")
        return dis
    if impl["N"] != model["N"]:
        return [f"N_timeSteps: impl {impl['N']} vs model {model['N']}"]
    if not close(impl["T0_obj"], impl["T0"]):
        dis.append(f"T_k_0: object holds {impl['T0_obj']!r}, configuration implies {impl['T0']!r}")
    if len(impl["t"]) != model["tlen"]:
        dis.append(f"len(t): impl {len(impl['t'])} vs model {model['tlen']}")
    N = impl["N"]
    for name in ("t", "Tshelf"):
        a, b = impl[name], model[name]
        if len(a) != len(b):
            dis.append(f"len({name}): impl {len(a)} vs model {len(b)}")
        for k, (x, y) in enumerate(zip(a, b)):
            if not close(x, y):
                dis.append(f"{name}[{k}]: impl {x!r} vs model {y!r}")
                break
    for i, (x, y) in enumerate(zip(impl["kb"], model["kb"])):
        if not close(x, y, 1e-9) and not (abs(x - y) <= 1e-9 * max(abs(x), abs(y))):
            dis.append(f"kb[{i}]: impl {x!r} vs model {y!r}")
            break
    # interaction structure of the declared shape (model) vs the real object's matrices
    if [sorted(r) for r in impl["nbrs"]] != [sorted(r) for r in model["nbrs"]]:
        i = next(i for i in range(len(model["nbrs"])) if i >= len(impl["nbrs"])
                 or sorted(impl["nbrs"][i]) != sorted(model["nbrs"][i]))
        dis.append(f"neighbours of vial {i}: impl {sorted(impl['nbrs'][i]) if i < len(impl['nbrs']) else None} "
                   f"vs model {sorted(model['nbrs'][i])}")
    if impl["ext"] != model["ext"]:
        dis.append(f"VIAL_EXT: impl {impl['ext']} vs model {model['ext']}")
    hA = impl["kInt"] * impl["A"]
    want = {}
    for i, r in enumerate(model["nbrs"]):
        for j in r:
            want[(i, j)] = want.get((i, j), 0.0) + hA
        if r:
            want[(i, i)] = -len(r) * impl["kInt"] * impl["A"]
    got = {(i, j): v for i, j, v in impl["Hint"]}
    for key in set(want) | set(got):
        a, b = got.get(key, 0.0), want.get(key, 0.0)
        if abs(a - b) > 1e-9 * max(abs(a), abs(b)):
            dis.append(f"H_int{list(key)} as used: impl {a!r} vs model {b!r}")
            break
    for i, (x, e) in enumerate(zip(impl["Hext"], model["ext"])):
        y = e * impl["kExt"] * impl["A"]
        if abs(x - y) > 1e-9 * max(abs(x), abs(y)):
            dis.append(f"H_ext[{i}] as used: impl {x!r} vs model {y!r}")
            break
    # shelf heat-transfer vector as used by the real run vs the configured coefficients
    for i, (x, y) in enumerate(zip(impl["Hshelf"], model["kShelf"])):
        if not close(x, y * impl["A"]) or abs(x - y * impl["A"]) > 1e-9 * max(abs(x), abs(y * impl["A"])):
            dis.append(f"H_shelf[{i}] as used: impl {x!r} vs model k_shelf*A {y * impl['A']!r}")
            break
    # controlled-nucleation index as the real run would compute it
    t = np.asarray(impl["t"])
    cnt = impl.get("cnt")
    kcn = int(np.argmax(t >= cnt)) if (cnt is not None and np.any(t >= cnt)) else N + 1
    if (kcn if kcn < N else N + 1) != (model["kCN"] if model["kCN"] < N else N + 1):
        dis.append(f"k_CN: impl {kcn} vs model {model['kCN']}")
    if dis:
        return dis

    margins = model["margins"]

    def tied(k):
        lo, hi = max(0, k - 2), min(len(margins), k + 1)
        return any(m < tie for m in margins[lo:hi])

    # first differing column
    kd = None
    what = None
    for k in range(N):
        for name in ("XT", "Xsigma"):
            a, b = impl[name][k], model[name][k]
            if len(a) != len(b):
                return [f"{name}[:, {k}] length: impl {len(a)} vs model {len(b)}"]
            for i, (x, y) in enumerate(zip(a, b)):
                if not close(x, y):
                    kd, what = k, f"{name}[{i}, {k}]: impl {x!r} vs model {y!r}"
                    break
            if kd is not None:
                break
        if kd is not None:
            break
    if kd is not None:
        if tied(kd):
            return [f"TIE: float decision with margin < {tie} before column {kd} ({what})"]
        return [what]
    # generator calls: one per step with a liquid vial, n = number of candidates
    mcalls = [(k, n) for k, n in enumerate(model["draws"]) if n is not None]
    icalls = [(c[0], len(c[1])) for c in impl["calls"]]
    if len(mcalls) != len(icalls):
        dis.append(f"generator calls: impl {len(icalls)} vs model {len(mcalls)}")
    for (mk, mn), (ik, in_) in zip(mcalls, icalls):
        if mn != in_ or (ik is not None and ik != mk):
            if tied(mk + 1):
                return [f"TIE: candidate decision at step {mk}"]
            dis.append(f"generator call at step {mk}: model random({mn}) vs impl step {ik} random({in_})")
            break
    # nucleation steps exactly, statistics with tolerance
    ins = impl_nuc_steps(impl)
    for i, (x, y) in enumerate(zip(ins, model["nucStep"])):
        if x != y:
            kk = min(v for v in (x, y) if v is not None)
            if tied(kk + 1):
                return [f"TIE: nucleation decision of vial {i} at step {kk}"]
            dis.append(f"nucleation step of vial {i}: impl {x} vs model {y}")
            break
    for name in ("tNuc", "TNuc", "tSol"):
        for i, (x, y) in enumerate(zip(impl[name], model[name])):
            if not _optclose(x, y):
                if name == "tSol":
                    # the step(s) at which sigma > threshold was decided for THIS vial
                    tn = impl["tNuc"][i]
                    ks = [int(round((v + tn) / impl["dt"])) for v in (x, y)
                          if v is not None and not (isinstance(v, float) and math.isnan(v)) and not math.isnan(tn)]
                    if any(tied(k) for k in ks):
                        return [f"TIE: threshold decision of vial {i} near step {ks} ({name}[{i}])"]
                dis.append(f"{name}[{i}]: impl {x!r} vs model {y!r}")
                break
    return dis


# ---------------------------------------------------------------------------
# INDEPENDENT statement of the published model (development.rst, Deck et al. 2022)
# ---------------------------------------------------------------------------
PRIMARY_KEYS = {"T_eq": ("solution", "T_eq"), "b": ("kinetics", "b"), "rho_l": ("solution", "rho_l"),
                "height": ("vial", "geometry", "height"), "length": ("vial", "geometry", "length"),
                "width": ("vial", "geometry", "width"), "cp_s": ("solution", "cp_s"),
                "solid_fraction": ("solution", "solid_fraction"), "cp_w": ("water", "cp_w"),
                "cp_i": ("water", "cp_i"), "k_f": ("solution", "k_f"), "M_s": ("solution", "M_s"),
                "Dh": ("water", "Dh")}


def layered_config(case_config=None):
    import yaml

    src = core.REPO / "src" / "ethz_snow" / "config" / "snowConfig_default.yaml"
    with open(src) as f:
        cfg = yaml.safe_load(f)

    def upd(d, u):
        for k, v in u.items():
            if isinstance(v, dict) and isinstance(d.get(k), dict):
                upd(d[k], v)
            else:
                d[k] = v

    if case_config:
        upd(cfg, case_config)
    return cfg


def derive_model(drv, case_config=None):
    """derived constants by the Lean model `deriveConsts` from the primary YAML values"""
    cfg = layered_config(case_config)
    req = {"op": "flakeDerive"}
    for k, path in PRIMARY_KEYS.items():
        d = cfg
        for q in path:
            d = d[q]
        req[k] = f2b(float(d))
    r = drv.call(req)
    if "error" in r:
        raise RuntimeError(r["error"])
    return {k: b2f(v) for k, v in r["consts"].items()}


def physical(case_config=None):
    """Primary physical parameters straight from the YAML layers (default + partial),
    NOT from `calculateDerived`."""
    import yaml

    src = core.REPO / "src" / "ethz_snow" / "config" / "snowConfig_default.yaml"
    with open(src) as f:
        cfg = yaml.safe_load(f)

    def upd(d, u):
        for k, v in u.items():
            if isinstance(v, dict) and isinstance(d.get(k), dict):
                upd(d[k], v)
            else:
                d[k] = v

    if case_config:
        upd(cfg, case_config)
    g = cfg["vial"]["geometry"]
    ph = dict(
        w_s=float(cfg["solution"]["solid_fraction"]), cp_s=float(cfg["solution"]["cp_s"]),
        cp_w=float(cfg["water"]["cp_w"]), cp_i=float(cfg["water"]["cp_i"]),
        lam=float(cfg["water"]["Dh"]), T_m=float(cfg["solution"]["T_eq"]),
        rho=float(cfg["solution"]["rho_l"]), k_f=float(cfg["solution"]["k_f"]),
        M_s=float(cfg["solution"]["M_s"]),
        a=float(cfg["kinetics"]["a"]), b=float(cfg["kinetics"]["b"]), c=float(cfg["kinetics"]["c"]),
        A=float(g["length"]) * float(g["width"]), height=float(g["height"]),
        arrangement=str(cfg["snowfall_parameters"]["vial_arrangement"]),
    )
    ph["V"] = ph["A"] * ph["height"]
    ph["m"] = ph["rho"] * ph["V"]                                   # m_v
    ph["D"] = ph["k_f"] / ph["M_s"] * ph["w_s"] / (1 - ph["w_s"])     # eq. 2
    ph["cp_l"] = ph["w_s"] * ph["cp_s"] + (1 - ph["w_s"]) * ph["cp_w"]
    ph["T_eq_l"] = ph["T_m"] - ph["D"]
    return ph


def stateless_failures(case, impl):
    """clauses about construction: objects do not influence each other, arguments are not modified,
    the initial temperature is the configured one. Returns [(clause, detail)]"""
    out = []
    if not impl.get("defaults_ok", True):
        out.append(("stateless_construction", "constructing a Snowflake changed the constructor's default arguments"))
    if not impl.get("userdict_ok", True):
        out.append(("stateless_construction", "constructing a Snowflake modified the initialStates dict passed in"))
    if not close(impl["T0_obj"], impl["T0"]):
        out.append(("initial_temperature", f"T_k_0 of the object is {impl['T0_obj']!r} but the configuration implies "
                    f"{impl['T0']!r} (another object built before in this process had another start temperature)"))
    rel = case["k"].get("s_sigma_rel")
    if case["N_vials"][2] == 1 and rel is not None and rel > 0 and len(impl["normals"]) != impl["n"]:
        out.append(("observation", f"s_sigma_rel > 0 on a shelf of {impl['n']} vials but the run drew "
                    f"{len(impl['normals'])} shelf normals in its last normal() call ({impl['normal_calls']} calls): "
                    "the shelf coefficients cannot be re-derived"))
    for key, val in impl.get("k_obj", {}).items():
        if val != float(case["k"][key]):
            out.append(("coefficients_kept", f"k['{key}'] of the object is {val!r}, the user passed {case['k'][key]!r}"))
    if impl.get("mask_obj") is not None and impl["mask_obj"] != impl["mask"]:
        out.append(("storage_mask", "the storage mask differs from the listed vial indices"))
    return out


def subset_failures(case, impl):
    """recorded subset (int list, any order): row r of X is vial sorted(store)[r]; per vial index:
    initial column, ice exactly from the recorded nucleation onwards. Returns [(clause, detail)]"""
    out = []
    idx = impl["stored_idx"]
    XT = np.asarray(impl["XT"])
    Xs = np.asarray(impl["Xsigma"])
    if XT.shape != (impl["N"], len(idx)):
        return [("shape", f"state matrix {XT.shape} for {len(idx)} recorded vials")]
    t = np.asarray(impl["t"])
    tn = np.asarray(impl["tNuc"])[idx]
    if np.any(XT[0] != impl["T0"]) or np.any(Xs[0] != 0):
        out.append(("initial_state", f"column 0 is not T_k_0={impl['T0']}, sigma=0"))
    ice = Xs != 0
    should = np.where(np.isnan(tn)[None, :], False, t[:, None] >= tn[None, :] - 1e-9 * np.maximum(1, np.abs(tn[None, :])))
    if (ice != should).any():
        k, r = np.argwhere(ice != should)[0]
        out.append(("ice_iff_after_nucleation", f"recorded row {r} (vial {idx[r]}) column {k}: sigma={Xs[k, r]!r}, "
                    f"t={t[k]!r}, t_nucleation of that vial={tn[r]!r}"))
    return out


def spec_kshelf(case, impl):
    """shelf coefficient per vial implied by the CONFIGURED coefficients and the recorded normals:
    k_i = max(0, s0 + n_i * s_sigma_rel * s0) on a shelf, s0 without variability, 0 in a pallet"""
    n = impl["n"]
    k = case["k"]
    if case["N_vials"][2] > 1:
        return np.zeros(n)
    rel = k.get("s_sigma_rel")
    if rel is not None and rel > 0:
        nm = np.asarray(impl["normals"], dtype=float)
        if len(nm) != n:
            return np.full(n, np.nan)
        return np.maximum(0.0, k["s0"] + nm * rel * k["s0"])
    return np.full(n, float(k["s0"]))


def check_kshelf(case, impl):
    """None if the heat-transfer vector used by the run is the configured one, else a message"""
    ks = spec_kshelf(case, impl)
    Hs = np.asarray(impl["Hshelf"])
    want = ks * impl["A"]
    bad = ~(np.abs(Hs - want) <= 1e-9 * np.maximum(np.abs(Hs), np.abs(want)))
    if bad.any():
        i = int(np.where(bad)[0][0])
        return f"vial {i}: H_shelf used {Hs[i]!r} vs configured k_shelf*A {want[i]!r} (k_shelf {ks[i]!r})"
    return None


def spec_q(ph, impl, M, T, Tsh, i):
    """net heat flow of vial i: neighbours + surroundings + shelf (W)"""
    A = ph["A"]
    q = 0.0
    for j in impl["nbrs"][i]:
        q += impl["kInt"] * A * (T[j] - T[i])
    q += impl["ext"][i] * impl["kExt"] * A * (Tsh - T[i])
    q += impl["kShelf"][i] * A * (Tsh - T[i])
    return q


def spec_liquid(ph, T, q, dt):
    """m c_p dT = q dt"""
    return T + q * dt / (ph["m"] * ph["cp_l"])


def spec_solid_residual(ph, s0, s1, q, dt):
    """eq. 5 with sigma-dot = (s1-s0)/dt and c_p(sigma) at the old state: returns lhs, rhs"""
    cp = ph["w_s"] * ph["cp_s"] + (1 - ph["w_s"]) * (ph["cp_w"] + s0 * (ph["cp_i"] - ph["cp_w"]))
    lhs = -q / ph["m"]
    rhs = (s1 - s0) / dt * (cp * ph["D"] / (1 - s0) ** 2 + ph["lam"] * (1 - ph["w_s"]))
    return lhs, rhs


def spec_curve(ph, s):
    """eq. 2"""
    return ph["T_m"] - ph["D"] / (1 - s)


def spec_indirect(ph, Tn):
    """eq. 9"""
    return (ph["T_eq_l"] - Tn) / (ph["D"] + ph["lam"] / ph["cp_l"] * (1 - ph["w_s"]))


def spec_direct_residual(ph, s, Tn):
    """eq. 12"""
    g = (1 - ph["w_s"]) * ph["lam"] / ph["cp_l"]
    return s * s * (-g) + s * (ph["T_m"] - Tn + g) + ph["D"] - ph["T_m"] + Tn


def spec_P(ph, kb, T, dt):
    return kb * ph["V"] * (ph["T_eq_l"] - T) ** ph["b"] * dt
