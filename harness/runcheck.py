"""./check <Cxx> <quick|thorough> [--replay file]

Generic runner.  A property module `props/cxx.py` provides

  ID, TITLE, LEAN_MODULE, THEOREMS (list of dicts: name, clause, strength)
  TRUSTED (list of str), ASSUMPTIONS (list of str), RULE (str)
  cases(rng, tier)        -> iterable of JSON-able case dicts
  run_impl(case)          -> observation dict from the REAL code (exceptions mapped)
  run_model(drv, case)    -> observation dict from the Lean model driver
                             (or run_model(drv, case, impl) when the model needs what was
                              recorded from the real run, e.g. generator draws, as input)
  compare(case, impl, model) -> list of disagreement strings
  predicates(case, impl)  -> list of core.Failure (property clauses false on the real code)
  optional: regenerate()  (translator; raises TranslatorError)
            widen(rng, tier) -> extra cases for the failing-input search
            classify(case, impl) -> list of tags (input distribution)
            nontrivial(case, impl) -> bool
            PARALLEL = True  (run_impl in a process pool)
            extra_lean_targets = [...]
"""
from __future__ import annotations

import importlib
import json
import os
import random
import re
import sys
import time
import traceback
from collections import Counter
from concurrent.futures import ProcessPoolExecutor
from pathlib import Path

sys.path.insert(0, str(Path(__file__).resolve().parent))

import core  # noqa: E402
from core import Failure  # noqa: E402


class TranslatorError(Exception):
    pass


def _case_hash(case):
    return json.dumps(case, sort_keys=True, default=str)


def _load_corpus(prop_id):
    d = core.VERIF / "corpus" / prop_id
    out = []
    if d.is_dir():
        for p in sorted(d.glob("*.json")):
            try:
                c = json.loads(p.read_text())
                if isinstance(c, dict) and "case" in c:
                    c = c["case"]
                c["_corpus"] = p.name
                out.append(c)
            except Exception as e:  # pragma: no cover
                print(f"warning: corpus file {p} unreadable: {e}", file=sys.stderr)
    return out


def _run_model(mod, drv, case, impl):
    """`run_model(drv, case)`, or `run_model(drv, case, impl)` if the module takes three
    arguments (recorded randomness / observed states are *input* of the model)."""
    import inspect

    try:
        n = len(inspect.signature(mod.run_model).parameters)
    except (TypeError, ValueError):
        n = 2
    return mod.run_model(drv, case, impl) if n >= 3 else mod.run_model(drv, case)


_ENVIRONMENTAL = (OSError, MemoryError, TimeoutError)


def _impl_wrapper(args):
    modname, case = args
    mod = importlib.import_module(modname)
    try:
        return mod.run_impl(case)
    except _ENVIRONMENTAL as e:  # disk, memory, time: says nothing about the code -> exit 2
        return {"_harness_error": "".join(traceback.format_exception_only(type(e), e)).strip(),
                "_tb": traceback.format_exc()[-2000:]}
    except Exception as e:
        # the observation of the real code could not be made (the code raised where the property module
        # does not expect it, or an attribute / call form the harness relies on is gone): the
        # correspondence is broken for this case; it is reported as such, with the case as the replay
        return {"_observation_error": "".join(traceback.format_exception_only(type(e), e)).strip(),
                "_tb": traceback.format_exc()[-2000:]}


def replay(mod, path):
    payload = json.loads(Path(path).read_text())
    case = payload.get("case")
    if case is None:
        print(json.dumps(payload, indent=1)[:4000])
        print("replay file names a broken obligation and has no concrete case")
        return 1
    print("case:", json.dumps(case, default=str)[:2000])
    try:
        impl = mod.run_impl(case)
    except _ENVIRONMENTAL:
        raise
    except Exception as e:
        print("OBSERVATION ERROR (the real code could not be observed on this case):", repr(e))
        return 1
    fails = mod.predicates(case, impl)
    print("implementation:", json.dumps(impl, default=str)[:2000])
    dis = []
    driver_ok = True
    try:
        drv = core.Driver()
        model = _run_model(mod, drv, case, impl)
        drv.close()
        print("model:", json.dumps(model, default=str)[:2000])
        dis = [d for d in mod.compare(case, impl, model) if not d.startswith("TIE:")]
        for d in dis:
            print("DISAGREEMENT:", d)
    except Exception as e:
        driver_ok = False
        print("model driver unavailable:", e)
    known = core.load_known()
    new = []
    for f in fails:
        e = core.match_known(mod.ID if hasattr(mod, "ID") else payload.get("property", ""), f["key"], known)
        if e is not None:
            print("KNOWN-FINDING:", f["clause"], "-", f["detail"])
        else:
            new.append(f)
            print("FAILS:", f["clause"], "-", f["detail"])
    if new or dis:
        return 1
    return 0 if driver_ok else 2


def main(argv):
    if len(argv) < 2:
        print(__doc__)
        return 2
    prop_id = argv[0].upper()
    modname = f"props.{prop_id.lower()}"
    mod = importlib.import_module(modname)
    if argv[1] == "--replay":
        return replay(mod, argv[2])
    tier = argv[1]
    if os.environ.get("VERIF_TIER") in ("quick", "thorough"):
        tier = os.environ["VERIF_TIER"] if argv[1] not in ("quick", "thorough") else argv[1]
    if tier not in ("quick", "thorough"):
        print("tier must be quick or thorough")
        return 2
    seed = core.env_seed()
    core.prune_cache()
    rng = random.Random(f"{prop_id}:{seed}")
    t0 = time.time()
    known = core.load_known()

    broken = []  # ties / obligations that no longer check
    notes = []

    # 1. translator ---------------------------------------------------------
    # (translator and build write into the Lean project: serialised between concurrent checks)
    _lock = core.lean_lock()
    _lock.__enter__()
    if hasattr(mod, "regenerate"):
        try:
            mod.regenerate()
        except TranslatorError as e:
            broken.append({"kind": "translator", "what": str(e)})
        except Exception as e:
            broken.append({"kind": "translator", "what": "translator crashed: " + repr(e)})

    # 2. build ----------------------------------------------------------------
    targets = ["SnowModel", "snowdrv", mod.LEAN_MODULE] + list(getattr(mod, "extra_lean_targets", []))
    ok_model, log = core.lake_build(["SnowModel", "snowdrv"])
    model_available = ok_model
    if not ok_model:
        broken.append({"kind": "build", "what": "model/driver does not build", "log": log[-3000:]})
    ok_proofs, log = core.lake_build(targets)
    if not ok_proofs and ok_model:
        failed = sorted(set(re.findall(r"^- (SnowProofs\.[\w.]+)", log, re.M))) or [mod.LEAN_MODULE]
        broken.append({"kind": "build", "what": " and ".join(failed) + " does not build"
                       + (" (regeneration tie: a generated formula no longer equals the hand model)"
                          if any(".GenTie." in f for f in failed) else ""), "log": log[-3000:]})

    _lock.__exit__(None, None, None)

    # 3. audit ----------------------------------------------------------------
    # entries with strength "monitored" name clauses of the property that have NO theorem (decided by
    # evaluation on real runs only); they are listed for honesty and are not proof obligations
    thms = [t["name"] for t in mod.THEOREMS if t.get("strength") != "monitored"]
    discharged = 0
    audit_res = {}
    forb = core.grep_forbidden(core.lean_sources())
    if forb:
        broken.append({"kind": "audit", "what": "forbidden construct: " + "; ".join(forb[:5])})
    if ok_proofs:
        audit_mods = [mod.LEAN_MODULE] + [t for t in getattr(mod, "extra_lean_targets", [])
                                          if t.startswith("SnowProofs.")]
        audit_res, audit_out = core.audit_theorems(audit_mods, thms, prop_id)
        for t in thms:
            ok, ax = audit_res[t]
            if ok and not forb:
                discharged += 1
            elif not ok:
                broken.append({"kind": "audit", "what": f"theorem {t}: {ax}"})
        if tier == "thorough":
            rc, out = core.run_cmd(["lake", "env", "leanchecker", mod.LEAN_MODULE],
                                   cwd=str(core.LEAN_DIR), timeout=3600)
            notes.append(f"leanchecker {mod.LEAN_MODULE}: rc={rc}")
            if rc != 0:
                broken.append({"kind": "audit", "what": "leanchecker rejected " + mod.LEAN_MODULE,
                               "log": out[-2000:]})

    # 4. correspondence + property predicates on the real code ------------------
    cases = _load_corpus(prop_id)
    n_corpus = len(cases)
    cases += list(mod.cases(rng, tier))
    drv = core.Driver() if model_available else None

    disagreements = []
    failures = []  # unlisted
    known_hits = {}
    dist = Counter()
    seen = set()
    nontrivial = 0
    harness_errors = []
    observation_errors = []
    compared = 0
    samples = []
    tie_ambiguous = 0

    def process(case, impl):
        nonlocal nontrivial, tie_ambiguous, compared
        if isinstance(impl, dict) and "_harness_error" in impl:
            harness_errors.append((case, impl))
            return
        if isinstance(impl, dict) and "_observation_error" in impl:
            observation_errors.append({"case": case, "what": [impl["_observation_error"]],
                                       "tb": impl.get("_tb", "")})
            return
        h = _case_hash(case)
        first = h not in seen
        seen.add(h)
        if hasattr(mod, "classify"):
            for tag in mod.classify(case, impl):
                dist[tag] += 1
        nt = mod.nontrivial(case, impl) if hasattr(mod, "nontrivial") else True
        if first and nt:
            nontrivial += 1
        if len(samples) < 3 and nt:
            samples.append({"case": case, "impl": _short(impl)})
        try:
            fs = list(mod.predicates(case, impl))
        except _ENVIRONMENTAL:
            raise
        except Exception as e:
            observation_errors.append({"case": case, "what": ["predicates could not be evaluated: " + repr(e)],
                                       "tb": traceback.format_exc()[-2000:]})
            fs = []
        for f in fs:
            f.setdefault("case", case)
            e = core.match_known(prop_id, f["key"], known)
            if e is not None:
                known_hits.setdefault(e["id"], (e, f))
            else:
                failures.append(f)
        if drv is not None:
            try:
                model = _run_model(mod, drv, case, impl)
            except Exception as e:
                disagreements.append({"case": case, "what": ["model driver error: " + repr(e)]})
                return
            if not (isinstance(model, dict) and model.get("skip")):
                compared += 1
            dis = mod.compare(case, impl, model)
            amb = [d for d in dis if d.startswith("TIE:")]
            tie_ambiguous += len(amb)
            dis = [d for d in dis if not d.startswith("TIE:")]
            if dis:
                disagreements.append({"case": case, "what": dis[:10], "impl": _short(impl),
                                      "model": _short(model)})

    def run_all(cs):
        if getattr(mod, "PARALLEL", False) and len(cs) > 4:
            workers = min(16, os.cpu_count() or 4)
            with ProcessPoolExecutor(max_workers=workers) as ex:
                for case, impl in zip(cs, ex.map(_impl_wrapper, [(modname, c) for c in cs],
                                                 chunksize=max(1, len(cs) // (workers * 8)))):
                    process(case, impl)
        else:
            for case in cs:
                process(case, _impl_wrapper((modname, case)))

    run_all(cases)
    evaluations = len(cases)

    if disagreements:
        broken.append({"kind": "correspondence",
                       "what": f"{len(disagreements)} of {evaluations} cases: model and implementation differ",
                       "first": disagreements[0]})
    if observation_errors:
        broken.append({"kind": "correspondence",
                       "what": f"{len(observation_errors)} of {evaluations} cases: the real code could not be observed "
                               f"({observation_errors[0]['what'][0][:300]})",
                       "first": {k: v for k, v in observation_errors[0].items() if k != "tb"},
                       "log": observation_errors[0].get("tb", "")})

    # 5. failing-input search when a tie/obligation is broken and nothing concrete yet
    searched = 0
    if broken and not failures and hasattr(mod, "widen"):
        extra = list(mod.widen(rng, tier))
        searched = len(extra)
        saved_drv = drv
        drv = None  # search evaluates the property on the implementation only
        run_all(extra)
        drv = saved_drv
    if drv is not None:
        drv.close()

    no_verdict = bool(harness_errors and not failures and not broken)
    if harness_errors:
        case, impl = harness_errors[0]
        print(f"harness error on {len(harness_errors)} case(s)" + (" (not a verdict):" if no_verdict else ":"),
              impl["_harness_error"], file=sys.stderr)
        print(impl.get("_tb", ""), file=sys.stderr)
        notes.append(f"HARNESS ERROR on {len(harness_errors)} case(s): {impl['_harness_error'][:300]}"
                     + (" - this run gives NO verdict (exit 2)" if no_verdict else ""))

    # 6. report -----------------------------------------------------------------
    wall = time.time() - t0
    rc = 0
    violation_lines = []
    by_key = {}
    for f in failures:
        by_key.setdefault(f["key"], f)
    for key, f in list(by_key.items())[:5]:
        path = core.write_replay(prop_id, {
            "property": prop_id, "clause": f["clause"], "key": key, "detail": f["detail"],
            "case": f.get("case"), "kind": "failing-input",
            "replay_cmd": f"./check {prop_id} --replay <this file>"})
        violation_lines.append(f"VIOLATION property={prop_id} replay={path}")
    if broken and not failures:
        path = core.write_replay(prop_id, {
            "property": prop_id, "kind": "broken-obligation",
            "broken": broken, "searched_extra_cases": searched,
            "note": "a theorem, the translator or the model/implementation correspondence no longer "
                    "checks and no input was found on which the property itself fails",
            "case": (disagreements[0]["case"] if disagreements
                     else observation_errors[0]["case"] if observation_errors else None)})
        violation_lines.append(f"VIOLATION property={prop_id} replay={path} no-failing-input-found")
    for kid, (e, f) in known_hits.items():
        print(f"KNOWN-FINDING: property={prop_id} {e['what']}")
    for l in violation_lines:
        print(l)
        rc = 1
    if broken:
        for b in broken:
            print("BROKEN:", b["kind"], "-", b["what"], file=sys.stderr)
            if "first" in b:
                print("  first:", json.dumps(b["first"], default=str)[:1500], file=sys.stderr)
            if "log" in b:
                print(b["log"][-1500:], file=sys.stderr)

    clauses = {}
    for t in mod.THEOREMS:
        clauses.setdefault(t.get("strength", "full"), []).append(f"{t['clause']} ({t['name']})")
    ev = {
        "property_id": prop_id,
        "tier": tier,
        "seed": seed,
        "level": "proof",
        "coverage": {
            "obligations": len(thms),
            "discharged": discharged,
            "checker_cmd": f"cd lean && lake build {mod.LEAN_MODULE} && lake env lean .lake/audit/Audit_{prop_id}.lean"
                           + (" && lake env leanchecker " + mod.LEAN_MODULE if tier == "thorough" else ""),
            "trusted_base": list(getattr(mod, "TRUSTED", [])),
            "axioms": {t: audit_res.get(t, (False, ["<not built>"]))[1] for t in thms},
            "theorems": clauses,
            "programs": evaluations,
            "disagreements_checked": len(disagreements),
            "cases_compared_with_model": compared,
            "observation_errors": len(observation_errors),
            "tie_ambiguous": tie_ambiguous,
            "evaluations": evaluations + searched,
            "distinct_nontrivial": nontrivial,
            "rule": getattr(mod, "RULE", ""),
            "corpus_cases": n_corpus,
            "input_distribution": dict(sorted(dist.items())),
            "samples": samples if samples else [{"case": cases[0]}] if cases else [],
            "known_findings_seen": sorted(known_hits.keys()),
            "search_extra_cases": searched,
            "source_fingerprint": core.repo_fingerprint(),
            "notes": notes,
            "explanation": getattr(mod, "EXPLANATION", ""),
        },
        "assumptions": list(getattr(mod, "ASSUMPTIONS", [])),
        "wall_s": round(wall, 2),
        "violations": len(violation_lines),
    }
    if hasattr(mod, "exhaustive"):
        space = mod.exhaustive(tier)
        if space:
            ev["coverage"]["exhaustive"] = True
            ev["coverage"]["exhaustive_space"] = space
    core.write_evidence(prop_id, ev)
    print(f"{prop_id} {tier}: theorems {discharged}/{len(thms)}, cases {evaluations}"
          f" (+{searched} search), disagreements {len(disagreements)}, "
          f"failures {len(by_key)}, known {len(known_hits)}, {wall:.1f}s")
    if no_verdict:
        return 2
    return rc


def _short(o, n=1200):
    s = json.dumps(o, default=str)
    if len(s) <= n:
        return o
    return s[:n] + "…"


if __name__ == "__main__":
    try:
        sys.exit(main(sys.argv[1:]))
    except SystemExit:
        raise
    except Exception:
        traceback.print_exc()
        sys.exit(2)
