"""Real `Snowing` objects for the correspondence checks (C08, C11, C13, …).

A *case* is a JSON-able dict

    dim        "0D" | "1D" | "2D"
    config     "shelf" | "VISF" | "jacket"
    height, diameter            vial geometry [m] (optional; defaults of the YAML)
    yaml       optional nested dict merged into the temporary YAML (kinetics, solution, VISF …)
    k_s0       k["s0"]
    t_tot, start, stop, rate, holds ([[temp, duration], …] | None), cnTemp (None | float)
    Frand      None  -> the real draw `np.random.seed(0); np.random.random()`
               float -> scripted: `np.random.random` is monkey-patched in this process
                        (the kinetic draw `np.random.rand()` is left alone)
    runs       optional list of {t_tot,start,stop,rate,holds,cnTemp,Frand} – successive runs on
               the SAME object (the first run uses the top-level program)

`run_real(case)` returns one observation per run: exception class of `run()`, and what the
public accessors (`results`, `time`, `temp`, `shelfTemp`, `iceMassFraction`) give afterwards
(or the exception class they raise).  `model_request(case, rec, …)` builds the driver request
for the Lean model from the case and the recorded constants / random draws.

`import shim` happens here first (scipy `simps`).
"""
from __future__ import annotations

import contextlib
import hashlib
import json
import math
import os
import tempfile
import warnings

import shim  # noqa: F401  (must precede ethz_snow.snowing)
import numpy as np

import core
from core import f2b, b2f

DIMS = {"0D": "homogeneous", "1D": "spatial_1D", "2D": "spatial_2D"}

CONST_KEYS = ["A", "V", "rho_l", "mass", "mass_water", "mass_solute", "cp_w", "cp_i", "cp_s",
              "cp_solution", "solid_fraction", "T_eq", "k_f", "M_s", "depression", "a", "b", "c", "Dh"]
CONST_SPATIAL = ["height", "diameter", "lambda_w", "lambda_i", "lambda_s", "k_B"]
VISF_KEYS = ["p_vac", "kappa", "Dh_evaporation", "m_water", "t_vac_start", "t_vac_duration"]


def _merge(d, u):
    for k, v in u.items():
        if isinstance(v, dict):
            d[k] = _merge(d.get(k, {}), v)
        else:
            d[k] = v
    return d


def yaml_dict(case):
    y = {"snowing_parameters": {"dimensionality": DIMS[case["dim"]],
                                "configuration": case.get("config", "shelf")}}
    geo = {}
    if case.get("height") is not None:
        geo["height"] = case["height"]
    if case.get("diameter") is not None:
        geo["diameter"] = case["diameter"]
    if geo:
        y["vial"] = {"geometry": geo}
    if case.get("yaml"):
        _merge(y, json.loads(json.dumps(case["yaml"])))
    return y


def _program(c):
    p = dict(t_tot=c["t_tot"], start=c["start"], stop=c["stop"], rate=c["rate"],
             holds=c.get("holds"), cnTemp=c.get("cnTemp"), Frand=c.get("Frand"))
    if c.get("cn_kind") is not None:
        p["cn_kind"] = c["cn_kind"]
    if c.get("edit") is not None:
        # "cnTemp-in-place": `S.opcond.cnTemp = <cnTemp of this programme>` on the EXISTING opcond object
        # (the rest of the programme must be that of the previous run)
        p["edit"] = c["edit"]
    if c.get("reconfig") is not None:
        # `S.configPath = <yaml with these entries merged in>` before this run
        p["reconfig"] = c["reconfig"]
    return p


def programs(case):
    """the successive programs run on the one object"""
    out = [_program(case)]
    for r in case.get("runs") or []:
        out.append(_program(r))
    return out


def case_of_run(case, k):
    """the case as a FRESH object would see run `k` of the history: programme `k` and the configuration in
    force at that run (all re-configurations up to `k` merged in)"""
    progs = programs(case)
    c = {key: v for key, v in case.items() if key not in ("runs",)}
    c.update({key: v for key, v in progs[k].items() if key not in ("reconfig", "edit")})
    y = json.loads(json.dumps(case.get("yaml") or {}))
    for pr in progs[1:k + 1]:
        if pr.get("reconfig"):
            _merge(y, json.loads(json.dumps(pr["reconfig"])))
    c["yaml"] = y or None
    return c


def make_opcond(prog):
    from ethz_snow.operatingConditions import OperatingConditions

    cooling = {"rate": prog["rate"], "start": prog["start"], "end": prog["stop"]}
    holds = prog.get("holds")
    holding = None if holds is None else [dict(temp=h[0], duration=h[1]) for h in holds]
    cn = prog.get("cnTemp")
    kind = prog.get("cn_kind")
    if cn is not None and kind == "np0d":
        cn = np.asarray(float(cn))          # 0-d array, e.g. from np.squeeze
    elif cn is not None and kind == "np1":
        cn = np.array([float(cn)])          # 1-element row of a table
    with warnings.catch_warnings():
        warnings.simplefilter("ignore")
        return OperatingConditions(t_tot=prog["t_tot"], cooling=cooling, holding=holding, cnTemp=cn)


def _cn_value(S):
    """`S.opcond.cnTemp` as a float (None stays None), whatever container it is kept in"""
    v = S.opcond.cnTemp
    if v is None:
        return None
    return float(np.asarray(v, dtype=float).reshape(-1)[0])


def solution_yaml(rng, p=0.6):
    """a configured solution other than the default (T_eq != 0, other solid fraction) - constants are inputs"""
    if rng.random() > p:
        return None
    y = {"solution": {"T_eq": rng.choice([3.82, -1.5])}}
    if rng.random() < 0.4:
        y["solution"]["solid_fraction"] = rng.choice([0.02, 0.1])
    return y


def with_yaml(case, y):
    if y:
        base = json.loads(json.dumps(case.get("yaml") or {}))
        case["yaml"] = _merge(base, json.loads(json.dumps(y)))
    return case


def make_snowing(case, prog=None):
    import yaml
    from ethz_snow.snowing import Snowing

    fd, path = tempfile.mkstemp(suffix=".yaml", prefix="snowcfg_")
    try:
        with os.fdopen(fd, "w") as f:
            yaml.safe_dump(yaml_dict(case), f)
        S = Snowing(k={"int": 0, "ext": 0, "s0": case["k_s0"], "s_sigma_rel": 0},
                    opcond=make_opcond(prog or _program(case)), Nrep=int(case.get("Nrep") or 1), configPath=path)
    finally:
        os.unlink(path)
    return S


@contextlib.contextmanager
def scripted_frand(value):
    """`np.random.random()` returns `value` (once or more); everything else is untouched."""
    if value is None:
        yield
        return
    orig = np.random.random

    def fake(*a, **k):
        if a or k:
            return orig(*a, **k)
        return float(value)

    np.random.random = fake
    try:
        yield
    finally:
        np.random.random = orig


def recorded_xi():
    from scipy.stats import norm

    st = np.random.get_state()
    np.random.seed(2024)
    xi = float(norm.ppf(np.random.rand()))
    np.random.set_state(st)
    return xi


def recorded_frand(seed=0):
    st = np.random.get_state()
    np.random.seed(seed)
    v = float(np.random.random())
    np.random.set_state(st)
    return v


def _num(x):
    if x is None:
        return None
    try:
        x = float(x)
    except (TypeError, ValueError):
        return None
    return None if math.isnan(x) else x


def _access(S, name):
    try:
        v = getattr(S, name)
    except Exception as e:  # AssertionError for a fresh object
        return {"raise": core.exc_class(e)}
    if name == "results":
        try:
            row = v.iloc[0].to_dict()
        except Exception as e:
            return {"raise": core.exc_class(e)}
        return {k: _num(val) for k, val in row.items()}
    if v is None:
        return None
    return np.asarray(v, dtype=float).tolist()


def _table(S):
    """every row of `.results` (Nrep > 1: one row per repetition), columns by label"""
    try:
        v = S.results
        return [{k: _num(val) for k, val in row.items()} for row in v.to_dict(orient="records")]
    except Exception as e:
        return {"raise": core.exc_class(e)}


def _raw(S, name):
    try:
        return getattr(S, name)
    except Exception:
        return None


def snapshot(S):
    snap = {k: _access(S, k) for k in ("results", "time", "shelfTemp", "temp", "iceMassFraction")}
    if getattr(S, "Nrep", 1) > 1:
        snap["results_table"] = _table(S)
    return snap


def constants(S):
    c = S.const
    out = {k: float(c[k]) for k in CONST_KEYS}
    for k in CONST_SPATIAL:
        if k in c:
            out[k] = float(c[k])
    visf = None
    if c.get("configuration") == "VISF":
        visf = {k: float(c[k]) for k in VISF_KEYS}
    return out, visf


def run_real(case):
    """-> {"const":…, "visf":…, "xi":…, "runs":[{"raise":…, "Frand":…, "snap":{…}}, …]}"""
    progs = programs(case)
    try:
        S = make_snowing(case, progs[0])
    except Exception as e:
        return {"raise": core.exc_class(e), "stage": "init", "runs": []}
    const, visf = constants(S)
    obs = {"raise": None, "const": const, "visf": visf, "xi": recorded_xi(), "runs": []}
    held = []
    for k, prog in enumerate(progs):
        if k > 0:
            try:
                if prog.get("edit") == "cnTemp-in-place":
                    S.opcond.cnTemp = prog.get("cnTemp")
                elif prog.get("edit") == "rerun-same-opcond":
                    pass  # a second solver call on the SAME OperatingConditions object
                else:
                    S.opcond = make_opcond(prog)
                if prog.get("reconfig"):
                    import yaml as _yaml

                    fd, path = tempfile.mkstemp(suffix=".yaml", prefix="snowcfg_")
                    try:
                        with os.fdopen(fd, "w") as f:
                            _yaml.safe_dump(yaml_dict(case_of_run(case, k)), f)
                        S.configPath = path
                    finally:
                        os.unlink(path)
            except Exception as e:
                obs["runs"].append({"raise": core.exc_class(e), "stage": "opcond"})
                continue
        fr = prog.get("Frand")
        rec = {"Frand": fr if fr is not None else recorded_frand(0)}
        rec["const"], rec["visf"] = constants(S)  # the configuration in force at THIS run
        try:
            rec["cnTemp_readback"] = _cn_value(S)
        except Exception as e:
            rec["cnTemp_readback"] = {"raise": core.exc_class(e)}
        with scripted_frand(fr):
            try:
                with warnings.catch_warnings():
                    warnings.simplefilter("ignore")
                    if case.get("Nrep"):
                        S.run(how=case.get("how", "sequential"))
                    else:
                        S.run()
                rec["raise"] = None
            except Exception as e:
                rec["raise"] = core.exc_class(e)
        try:
            rec["cnTemp_after"] = _cn_value(S)  # the operating conditions must be unchanged by a run
        except Exception as e:
            rec["cnTemp_after"] = {"raise": core.exc_class(e)}
        rec["snap"] = snapshot(S)
        # the very objects the accessors handed out after THIS run (no copy) - re-read at the end
        held.append({nm: _raw(S, nm) for nm in ("time", "shelfTemp", "temp", "iceMassFraction")})
        obs["runs"].append(rec)
    # a SECOND object of the same configuration (same grid shape) run afterwards in this process
    if case.get("then_other") is not None:
        other = dict(case)
        other.update(case["then_other"])
        other.pop("runs", None)
        try:
            S2 = make_snowing(other, _program(other))
            with scripted_frand(other.get("Frand")):
                try:
                    with warnings.catch_warnings():
                        warnings.simplefilter("ignore")
                        S2.run()
                    obs["other_raise"] = None
                except Exception as e:
                    obs["other_raise"] = core.exc_class(e)
        except Exception as e:
            obs["other_raise"] = core.exc_class(e)
    # what a caller who kept the histories of run k sees NOW (after all later runs / the second object)
    runs_with_snap = [r for r in obs["runs"] if "snap" in r]
    for rec, h in zip(runs_with_snap, held):
        changed = []
        for nm, ref in h.items():
            first = rec["snap"].get(nm)
            if ref is None or not isinstance(first, list):
                continue
            a, b = np.asarray(ref, dtype=float), np.asarray(first, dtype=float)
            if a.shape != b.shape or not np.array_equal(a, b, equal_nan=True):
                changed.append(nm)
        rec["changed_later"] = changed
    return obs


# ---------------------------------------------------------------------------
# model side
# ---------------------------------------------------------------------------
def model_request(case, obs, prog=None, Frand=None, old=False, traces=False, row_stride=1, shelf=None):
    """driver request for one `_run_0D/_run_1D` call"""
    prog = prog or _program(case)
    op = {"0D": "snowing0D", "1D": "snowing1D"}[case["dim"]]
    req = {
        "op": op,
        "const": {k: f2b(v) for k, v in obs["const"].items()},
        "Kshelf": f2b(case["k_s0"]),
        "xi": f2b(obs["xi"]),
        "Frand": f2b(Frand if Frand is not None else 0.5),
        "oc": {"t_tot": f2b(prog["t_tot"]), "start": f2b(prog["start"]), "stop": f2b(prog["stop"]),
               "rate": f2b(prog["rate"]), "isList": True},
        "old": bool(old),
        "traces": bool(traces),
        "rowStride": int(row_stride),
    }
    if prog.get("holds") is not None:
        req["oc"]["holds"] = [[f2b(h[0]), f2b(h[1])] for h in prog["holds"]]
    if prog.get("cnTemp") is not None:
        req["cnTemp"] = f2b(prog["cnTemp"])
    if obs.get("visf"):
        req["visf"] = {k: f2b(v) for k, v in obs["visf"].items()}
    if shelf is not None:
        req["shelf"] = [f2b(x) for x in shelf]
    return req


def _dec(x):
    return None if x is None else b2f(x)


def decode_model(r):
    """bit patterns -> floats"""
    if "error" in r:
        raise RuntimeError(r["error"])
    out = {"raise": r.get("raise"), "stage": r.get("stage")}
    for k in ("n", "NtCoolEnd", "NtSolEnd", "NtExp", "iSaveEnd", "iSaveSolid", "nrows", "rows", "steps"):
        if k in r:
            out[k] = r[k]
    for k in ("dt", "dz", "kb", "T_eq_l"):
        if k in r:
            out[k] = b2f(r[k])
    if r.get("stats") is not None:
        out["stats"] = {k: _dec(v) for k, v in r["stats"].items()}
    else:
        out["stats"] = None
    for k in ("time", "shelf", "Etrace", "Ttrace", "sigma", "Tnuc", "z"):
        if k in r:
            out[k] = [b2f(b) for b in r[k]]
    for k in ("temp", "ice"):
        if k in r:
            v = r[k]
            if v and isinstance(v[0], list):
                out[k] = [[b2f(b) for b in row] for row in v]
            else:
                out[k] = [b2f(b) for b in v]
    return out


RUN_FIELDS = ("dim", "config", "height", "diameter", "yaml", "k_s0", "t_tot", "start", "stop", "rate", "holds",
              "cnTemp", "Frand", "runs", "Nrep", "how", "then_other", "cn_kind")


def source_key(case):
    """cache key: source fingerprint (all *.py + YAML of the package) + the fields of the case that
    determine the run (labels such as `kind` are left out, so properties share runs)"""
    h = hashlib.sha256()
    h.update(core.repo_fingerprint().encode())
    canon = {k: case.get(k) for k in RUN_FIELDS}
    canon["config"] = canon["config"] or "shelf"
    h.update(json.dumps(canon, sort_keys=True, default=str).encode())
    return h.hexdigest()


# ---------------------------------------------------------------------------
# cache of real runs (shared by the Snowing properties within one source state)
# ---------------------------------------------------------------------------
CACHE_DIR = core.VERIF / ".cache"
CACHE_MAX_FILES = 600  # about 0.6 GB at the observed average size


def run_real_cached(case):
    """`run_real` through a file cache keyed by SHA-256(source files + YAML + case), gzip-compressed.
    Bounded: `core.prune_cache()` (called by runcheck) deletes the observations of a previous source state.
    `VERIF_NOCACHE=1` disables it."""
    import gzip

    if os.environ.get("VERIF_NOCACHE"):
        return run_real(case)
    key = source_key(case)
    path = CACHE_DIR / (key + ".json.gz")
    if path.exists():
        try:
            with gzip.open(path, "rt") as f:
                return json.load(f)
        except Exception:
            pass
    obs = run_real(case)
    try:
        CACHE_DIR.mkdir(parents=True, exist_ok=True)
        # bounded also within one source state: beyond CACHE_MAX_FILES observations nothing more is stored
        # (thorough tiers over many seeds would otherwise accumulate several GB)
        if sum(1 for _ in os.scandir(CACHE_DIR)) > CACHE_MAX_FILES:
            return obs
        tmp = CACHE_DIR / (key + ".tmp%d" % os.getpid())
        with gzip.open(tmp, "wt", compresslevel=1) as f:
            json.dump(obs, f)
        os.replace(tmp, path)
    except Exception:
        pass
    return obs


# ---------------------------------------------------------------------------
# independent oracles used by the predicates (nothing here calls the model)
# ---------------------------------------------------------------------------
def simpson_weights(N, h):
    """closed-form weights of scipy.integrate.simpson on N >= 3 uniformly spaced points
    (the `simpsonW` of SnowProofs/Lemmas/SimpsonArr.lean): odd N: h/3*[1,4,2,...,4,1];
    even N: composite rule on the first N-1 points + end correction, last three weights
    5h/4, h, 5h/12."""
    assert N >= 3
    if N % 2 == 1:
        w = [0.0] * N
        for j in range(N):
            w[j] = h / 3 if j in (0, N - 1) else (4 * h / 3 if j % 2 == 1 else 2 * h / 3)
        return np.array(w)
    w = list(simpson_weights(N - 1, h)) + [0.0]
    w[N - 1] = 5 * h / 12
    w[N - 2] = h
    w[N - 3] = 5 * h / 4
    return np.array(w)


def trapezoid_weights(N, h):
    w = np.full(N, h)
    w[0] = w[-1] = h / 2
    return w


def kb_of(const, xi):
    return 10.0 ** (-(const["a"] + xi * const["c"]))


def T_eq_l_of(const):
    return const["T_eq"] + 273.15 - const["depression"]


def rate_field(T, const, xi):
    """J = kb (T_eq_l - T)^b on the supercooled nodes, 0 elsewhere (T in K)"""
    T = np.asarray(T, dtype=float)
    Tl = T_eq_l_of(const)
    J = np.zeros_like(T)
    m = T < Tl
    J[m] = kb_of(const, xi) * (Tl - T[m]) ** const["b"]
    return J


def dt_1d(const):
    dz = const["height"] / 30
    return 0.4 * dz**2 / (const["lambda_i"] / (const["cp_i"] * const["rho_l"]))


def n_steps(t_tot, dt):
    return int(math.ceil(t_tot / dt)) + 1


def programmed_profile(prog, dt):
    """the programmed shelf temperature (deg C) per step – `OperatingConditions.tempProfile`,
    the function C05 is about"""
    return [float(x) for x in make_opcond(prog).tempProfile(dt)]


# (height, k_s0, rate, steps that suffice for complete freezing) – calibrated 1D programs with
# <= 10 000 steps, so that every step is recorded
CAL_1D = [
    (0.02, 400, 0.5, 7600), (0.02, 2000, 0.5, 5600), (0.03, 400, 0.05, 8900), (0.03, 400, 0.5, 6500),
    (0.03, 2000, 0.05, 7600), (0.03, 2000, 0.5, 5200), (0.05, 100, 0.05, 9400), (0.05, 100, 0.5, 8800),
    (0.05, 400, 0.05, 6600), (0.05, 400, 0.5, 5600), (0.05, 2000, 0.05, 5700), (0.05, 2000, 0.5, 4700),
]

ALPHA_MAX_DEFAULT = 2.25 / (2108 * 1000)


def dt_1d_default(height):
    return 0.4 * (height / 30) ** 2 / ALPHA_MAX_DEFAULT


def dt_2d(const):
    dz = const["height"] / 30
    dr = (const["diameter"] / 2) / 15
    alpha_max = const["lambda_i"] / (const["cp_i"] * const["rho_l"])
    return (0.4 / alpha_max) * (dz**2 * dr**2) / (dr**2 + dz**2)


def dt_2d_default(height, diameter):
    dz = height / 30
    dr = (diameter / 2) / 15
    return (0.4 / ALPHA_MAX_DEFAULT) * (dz**2 * dr**2) / (dr**2 + dz**2)


def record_inputs(case):
    """constants and the kinetic draw, read from a freshly built (not run) Snowing object –
    what the model receives as input"""
    try:
        S = make_snowing(case)
    except Exception as e:
        return {"raise": core.exc_class(e)}
    const, visf = constants(S)
    return {"raise": None, "const": const, "visf": visf, "xi": recorded_xi()}


def stride_cases():
    """fixed 1D programmes with more than 10 000 steps (save strides 3 and 2) that freeze completely – shared by
    C08 (first crossing evaluated on EVERY step, not only on the recorded ones) and C13 (stride logic)"""
    h = 0.02
    dt = dt_1d_default(h)
    out = []
    for k, rate, fr, n in ((2000, 0.5, 0.3, 21000), (400, 0.5, 0.7, 24000), (2000, 0.5, 0.05, 15000)):
        out.append(dict(dim="1D", config="shelf", height=h, k_s0=k, t_tot=n * dt, start=20, stop=-50, rate=rate,
                        holds=None, cnTemp=None, Frand=fr, frkind="mid", kind="stride>1", row_stride=211))
    return out


# ---------------------------------------------------------------------------
# 2D: the model of work package G (`SnowModel/Snowing2D.lean`, driver op `snowing2D`)
# ---------------------------------------------------------------------------
STATS_2D = ("T_nuc_min", "T_nuc_kin", "T_nuc_mean", "T_nuc_max", "t_nuc", "t_sol", "t_fr")


def model_2d(drv, case, prog=None, Frand=None, out_stride=10 ** 6):
    """one `_run_2D` call on the Lean model with all flags false (= the repaired code that /repo contains);
    returns {"raise", "dt", "NtExp", "iCool", "iSol", "iSaveEnd", "n", "stats": {...}, "time", "shelf",
    "rows", "temp", "ice"}"""
    import snowing2dutil as s2

    prog = prog or _program(case)
    mi = model_init(case)
    if mi is not None:
        return mi
    try:
        S = make_snowing(case, prog)
    except Exception as e:
        # the rule says this case constructs; the model cannot echo the implementation
        return {"raise": None, "stage": "init", "no_constants": core.exc_class(e)}
    c2 = {"K_shelf": case["k_s0"], "t_tot": prog["t_tot"], "start": prog["start"], "stop": prog["stop"],
          "rate": prog["rate"], "holds": prog.get("holds"), "cn": prog.get("cnTemp"),
          "Frand": Frand if Frand is not None else recorded_frand(0), "outStride": int(out_stride)}
    m = s2.run_model(drv, c2, flags=s2.FLAGS_REPAIRED, const=dict(S.const))
    if m.get("stats") is not None:
        m["stats"] = dict(zip(STATS_2D, m["stats"]))
    return m


def compare_2d(case, run, m, arrays=True):
    """real 2D run (one entry of obs["runs"]) against the 2D model"""
    dis = []
    if (run["raise"] or None) != (m.get("raise") or None):
        return [f"2D exception: impl {run['raise']} vs model {m.get('raise')}"]
    if run["raise"]:
        return dis
    snap = run["snap"]
    res = snap["results"]
    i_impl = int(round(res["t_nuc"] * 60.0 / m["dt"]))
    if i_impl != m["iCool"]:
        dis.append(f"2D nucleation step: impl {i_impl} vs model {m['iCool']}")
        return dis
    for k, v in m["stats"].items():
        if not core.close(res[k], v):
            dis.append(f"2D {k}: impl {res[k]!r} vs model {v!r}")
    if not arrays:
        return dis
    for name in ("time", "shelfTemp", "temp", "iceMassFraction"):
        if len(snap[name]) != m["n"]:
            dis.append(f"2D len({name}): impl {len(snap[name])} vs model {m['n']}")
    if dis:
        return dis
    for name, key in (("time", "time"), ("shelfTemp", "shelf")):
        a, b = np.asarray(snap[name]), np.asarray(m[key])
        bad = np.nonzero(np.abs(a - b) > 1e-9 * np.maximum(1.0, np.maximum(np.abs(a), np.abs(b))))[0]
        if len(bad):
            dis.append(f"2D {name}[{int(bad[0])}]: impl {a[bad[0]]!r} vs model {b[bad[0]]!r}")
    for name, key in (("temp", "temp"), ("iceMassFraction", "ice")):
        for row, j in zip(m[key], m["rows"]):
            a, b = np.asarray(snap[name][j], float).ravel(), np.asarray(row, float)
            if a.shape != b.shape:
                dis.append(f"2D {name}[{j}] shape: impl {a.shape} vs model {b.shape}")
                break
            if not np.all(np.abs(a - b) <= 1e-9 * np.maximum(1.0, np.maximum(np.abs(a), np.abs(b)))):
                dis.append(f"2D {name}[{j}]: impl vs model differ by {float(np.max(np.abs(a - b)))}")
                break
    return dis


def jacket_case():
    """ONE 2D jacket run (side-wall cooling through a thin air gap: radial gradients in temperature and ice
    fraction) shared by C08 and C13 - every step recorded (about 4500 steps)"""
    return dict(dim="2D", config="jacket", height=0.04, diameter=0.04, yaml={"jacket": {"air_gap": 1e-4}}, k_s0=400,
                t_tot=1500, start=20, stop=-40, rate=0.5, holds=None, cnTemp=None, Frand=0.37, frkind="mid",
                kind="2D-jacket", row_stride=499)


def cyl_weights(const):
    """(w_z, w_r * 2 pi r): Simpson weights of the 30 x 15 grid with the cylindrical volume element"""
    wz = simpson_weights(30, const["height"] / 29)
    radius = const["diameter"] / 2
    r = np.linspace(0, radius, 15)
    return wz, simpson_weights(15, radius / 14) * 2 * np.pi * r


# ---------------------------------------------------------------------------
# constructor exceptions: expected ones come from a RULE on the case, never from a second call of the
# real constructor (audit H1)
# ---------------------------------------------------------------------------
def expected_init_error(case):
    """the exception class `Snowing(...)` / `OperatingConditions(...)` must raise for this case, by the documented
    rules of the package (None: construction must succeed)"""
    cfg, dim = case.get("config", "shelf"), case["dim"]
    if cfg not in ("shelf", "VISF", "jacket"):
        return "NotImplementedError"
    if cfg == "VISF" and dim == "0D":
        return "NotImplementedError"
    if cfg == "jacket" and dim != "2D":
        return "NotImplementedError"
    for pr in programs(case):
        if pr["rate"] == 0 and pr["start"] != pr["stop"]:
            return "ValueError"
        if pr["rate"] == 0 and pr.get("holds"):
            return "ValueError"
    return None


def init_failures(case, impl, Failure):
    """construction outcome of the real code against the rule; every other raise is a failure of the property's
    premise 'the run was made' and is reported"""
    out = []
    exp = expected_init_error(case)
    got = impl.get("raise")
    if (got or None) != exp:
        out.append(Failure(clause="complete_or_raise", key=f"unexpected_exception|init|{got}",
                           detail=f"constructing the Snowing object raised {got} (stage {impl.get('stage')}); by the "
                                  f"rules of the package this case must {'raise ' + exp if exp else 'construct'}"))
    for k, run in enumerate(impl.get("runs") or []):
        if "snap" not in run and run.get("raise"):
            out.append(Failure(clause="complete_or_raise", key=f"unexpected_exception|{run.get('stage')}|{run['raise']}",
                               detail=f"preparing run {k} of the object history (stage {run.get('stage')}) raised "
                                      f"{run['raise']}"))
    return out


def model_init(case):
    """what the model side says about construction: the expected class by rule, or None (must construct).
    If the rule says 'constructs' but the real constructor raises, the model has no constants to run on: the
    mismatch is reported by `compare` (and by `init_failures`)."""
    exp = expected_init_error(case)
    if exp:
        return {"raise": exp, "stage": "init"}
    return None
