"""confirm_seed.py <src_dir> <seed_id> [<check ids>...]

Confirm a seeded change produced by an independent agent and file it under /verif/seeded/<seed_id>/:
 (a) demo.py passes on a clean scratch worktree of /repo HEAD,
 (b) with patch.diff applied the demo fails,
 (c) with the patch applied the repository's stable test suite still passes,
 (d) which of our checks (quick tier) catch it (run through SNOW_REPO on the same scratch worktree).
The scratch worktree is removed afterwards. /repo itself is never modified.
"""
import json
import os
import re
import shutil
import subprocess
import sys
from pathlib import Path

VERIF = Path(__file__).resolve().parent.parent


def sh(cmd, cwd=None, env=None, timeout=3600):
    e = dict(os.environ)
    if env:
        e.update(env)
    r = subprocess.run(cmd, shell=True, cwd=cwd, env=e, capture_output=True, text=True, timeout=timeout)
    return r.returncode, (r.stdout + r.stderr)


def main():
    src = Path(sys.argv[1]).resolve()
    seed_id = sys.argv[2]
    checks = sys.argv[3:]
    meta = json.loads((src / "meta.json").read_text())
    wt = f"/tmp/confirm-{os.getpid()}"
    rc, out = sh(f"git -C /repo worktree add -q {wt} HEAD")
    assert rc == 0, out
    res = {}
    try:
        env = {"PYTHONPATH": f"{wt}/src"}
        rc, out = sh(f"/venv/bin/python {src}/demo.py", cwd=wt, env=env, timeout=600)
        res["demo_clean_rc"] = rc
        rc, out = sh(f"git -C {wt} apply {src}/patch.diff")
        res["patch_applies"] = rc == 0
        rc, out = sh(f"/venv/bin/python {src}/demo.py", cwd=wt, env=env, timeout=600)
        res["demo_patched_rc"] = rc
        res["demo_patched_tail"] = out.strip().splitlines()[-1][:300] if out.strip() else ""
        rc, out = sh("/venv/bin/python -m pytest -q -p no:cacheprovider --timeout=900 "
                     "--continue-on-collection-errors 2>&1 | tail -3", cwd=wt, env=env, timeout=3600)
        m = re.search(r"(\d+) passed", out)
        res["tests_passed_patched"] = int(m.group(1)) if m else None
        res["tests_failed_patched"] = int(re.search(r"(\d+) failed", out).group(1)) if re.search(r"(\d+) failed", out) else 0
        caught = {}
        for cid in checks:
            rc, out = sh(f"./check {cid} quick", cwd=str(VERIF), env={"SNOW_REPO": wt}, timeout=3600)
            lines = [l for l in out.splitlines() if l.startswith("VIOLATION")]
            caught[cid] = {"rc": rc, "violation_lines": len(lines),
                           "no_failing_input": any("no-failing-input-found" in l for l in lines),
                           "summary": out.strip().splitlines()[-1][:300] if out.strip() else ""}
        res["checks"] = caught
    finally:
        sh(f"git -C /repo worktree remove --force {wt}")
    ok = (res.get("demo_clean_rc") == 0 and res.get("patch_applies") and res.get("demo_patched_rc") not in (0, None)
          and (res.get("tests_passed_patched") or 0) >= 64 and res.get("tests_failed_patched") == 0)
    res["confirmed"] = bool(ok)
    print(json.dumps(res, indent=1))
    if not ok and (VERIF / "seeded" / seed_id / "meta.json").exists() and src.resolve() == (VERIF / "seeded" / seed_id).resolve():
        # re-confirmation of a filed seed that no longer breaks the property on the current /repo
        # (a later repair made it equivalent) or no longer applies: record that, keep the files
        meta["obsolete"] = {"reason": "no longer applies" if not res.get("patch_applies") else
                            "demo passes with the patch on the current /repo HEAD", "confirmation": res}
        (VERIF / "seeded" / seed_id / "meta.json").write_text(json.dumps(meta, indent=1) + "\n")
    if ok:
        meta.pop("obsolete", None)
        dst = VERIF / "seeded" / seed_id
        dst.mkdir(parents=True, exist_ok=True)
        if src.resolve() != dst.resolve():
            shutil.copy(src / "patch.diff", dst / "patch.diff")
            shutil.copy(src / "demo.py", dst / "demo.py")
        meta["confirmed_by"] = ("harness/confirm_seed.py on a scratch worktree of /repo HEAD "
                                + subprocess.run("git -C /repo rev-parse --short HEAD", shell=True, capture_output=True,
                                                 text=True).stdout.strip())
        meta["confirmation"] = res
        (dst / "meta.json").write_text(json.dumps(meta, indent=1) + "\n")
    return 0 if ok else 1


if __name__ == "__main__":
    sys.exit(main())
