"""Python `ast` -> Lean 4 source: the translator that ties C19/C20 to /repo.

Writes (from the CURRENT source under core.REPO, i.e. /repo or $SNOW_REPO)

  lean/SnowModel/Gen/Evap.lean     <- utils.vapour_pressure_liquid / _solid / vapour_flux
  lean/SnowModel/Gen/Derived.lean  <- constants.calculateDerived (everything after `_loadConfig`)

and, in FORMULA EXTRACTION mode (`translate_formulas`, driven by harness/gentie.py),

  lean/SnowModel/Gen/Formulas0D.lean  <- single assignments of Snowing._run_0D
  lean/SnowModel/Gen/GenFlake.lean    <- single assignments of Snowflake.run
  lean/SnowModel/Gen/Formulas1D.lean  <- single assignments of Snowing._run_1D

one Lean definition per targeted assignment (target text + occurrence), parameters = the free
names of the right-hand side, subscripts/attributes as opaque scalar parameters (see `FormulaTr`);
lean/SnowProofs/Props/GenTie/*.lean proves each equal to the formula of the hand-written model.

The accepted language is deliberately tiny.  Anything outside it raises
`TranslatorError` naming the offending node: a broken tie, never a silent skip.

Expressions
  names (arguments / earlier single assignments), decimal int/float literals
  (emitted as `Num.lit m k` with the EXACT decimal value of the literal text),
  `+ - * / **`, unary minus, `np.exp np.log np.sqrt np.tanh` (one argument), `np.pi`,
  and in `calculateDerived` only: `float(config[a][b]…)`, `str(config[a][b]…)`.
Conditions
  `s == "lit"`, `s != "lit"`, `s in {"a", …}`, `s not in {…}`, `s.startswith("lit")`
  with `s` a string variable, `str(config[…])` or a bare `config[…]`.
Statements (`calculateDerived` only)
  `config = _loadConfig(fpath)`, `const = dict()`, `name = expr` (single assignment),
  `constVars = ["…", …]`, `constVars.extend(["…", …])`, `if/elif/else`,
  `raise NotImplementedError(<message that cannot raise>)`, the bundling loop
  `for v in constVars: const[v] = locals()[v]`, `return const`.

Semantics carried over
  * utils.py functions are numpy code: `/` is IEEE division (no exception) -> `Num`'s `/`.
  * calculateDerived works on Python floats: `/` raises ZeroDivisionError -> `Py.div`;
    lookups raise KeyError/TypeError/ValueError -> `Cfg.floatAt/strAt/rawStrAt`;
    statements are emitted in source order inside `Except String`, so the FIRST
    exception of the model is the first exception of the code.
  * `const[v] = locals()[v]` at the end equals pairing name and value at the point
    where the name is listed, because every name is assigned exactly once and before it
    is listed (the translator checks both; otherwise TranslatorError).
"""
from __future__ import annotations

import ast
import hashlib
import re
import sys
from fractions import Fraction
from pathlib import Path

sys.path.insert(0, str(Path(__file__).resolve().parent))
import core  # noqa: E402

_main = sys.modules.get("__main__")
TranslatorError = getattr(_main, "TranslatorError", None)
if TranslatorError is None:
    try:  # the class runcheck catches, when runcheck is importable as a module
        from runcheck import TranslatorError  # type: ignore
    except Exception:  # pragma: no cover
        class TranslatorError(Exception):
            pass

GEN_DIR = core.LEAN_DIR / "SnowModel" / "Gen"

LEAN_KEYWORDS = {
    "at", "from", "end", "in", "do", "then", "else", "if", "fun", "let", "have", "show", "open", "by",
    "match", "with", "where", "def", "theorem", "instance", "class", "structure", "namespace", "section",
    "variable", "universe", "import", "for", "return", "mut", "unless", "try", "catch", "finally", "Type",
    "Prop", "Sort", "deriving", "extends", "mutual", "private", "protected", "noncomputable", "partial",
    "unsafe", "macro", "syntax", "notation", "infix", "infixl", "infixr", "prefix", "postfix", "set_option",
    "attribute", "local", "scoped", "export", "using", "calc", "nomatch", "nofun", "exact", "config", "const",
    "pure", "bind", "throw", "some", "none", "true", "false", "α",
}

NP_FUNCS = {"exp": "Transc.exp", "log": "Transc.log", "sqrt": "Transc.sqrt", "tanh": "Transc.tanh"}
BINOPS = {ast.Add: "+", ast.Sub: "-", ast.Mult: "*"}
NP_CONST_ARRAYS = {"ones": "Num.one", "zeros": "Num.zero", "ones_like": "Num.one", "zeros_like": "Num.zero"}


def _where(node, fname):
    return f"{fname}:{getattr(node, 'lineno', '?')}:{getattr(node, 'col_offset', '?')}"


def _bad(node, fname, why):
    try:
        d = ast.dump(node)
    except Exception:  # pragma: no cover
        d = repr(node)
    if len(d) > 300:
        d = d[:300] + "…"
    raise TranslatorError(f"{_where(node, fname)}: {why}: {d}")


def lean_name(py: str) -> str:
    if not re.fullmatch(r"[A-Za-z_][A-Za-z0-9_]*", py):
        raise TranslatorError(f"identifier {py!r} is not a plain ASCII name")
    if py.startswith("τ"):
        raise TranslatorError(f"identifier {py!r} collides with translator temporaries")
    if py in LEAN_KEYWORDS or py == "_":
        return "«py_" + py + "»"
    return py


def lean_str(s: str) -> str:
    if not all(32 <= ord(ch) < 127 and ch not in '"\\' for ch in s):
        raise TranslatorError(f"string constant {s!r} has characters outside printable ASCII")
    return '"' + s + '"'


_LIT = re.compile(r"(?:[0-9][0-9_]*\.?[0-9_]*|\.[0-9][0-9_]*)(?:[eE][+-]?[0-9][0-9_]*)?")


def literal(node: ast.Constant, src: str, fname: str) -> str:
    """A numeric literal as `Num.lit m k` (= m / 10^k, exactly the decimal text)."""
    v = node.value
    if isinstance(v, bool) or not isinstance(v, (int, float)):
        _bad(node, fname, "only decimal int/float literals are translated")
    text = ast.get_source_segment(src, node)
    if text is None or not _LIT.fullmatch(text):
        _bad(node, fname, f"literal text {text!r} is not a plain decimal literal")
    t = text.replace("_", "")
    try:
        q = Fraction(t)
    except Exception:
        _bad(node, fname, f"literal text {text!r} not understood")
    if isinstance(v, int):
        if q != v:
            _bad(node, fname, "integer literal text and value differ")
    else:
        # Python parses the text to the nearest double; the model literal is the exact decimal
        if float(q) != v:
            _bad(node, fname, "float literal text and value differ")
    k = 0
    while q.denominator != 1:
        q *= 10
        k += 1
        if k > 400:
            _bad(node, fname, "literal exponent out of range")
    m = q.numerator
    return f"(Num.lit {m} {k})" if m >= 0 else f"(Num.lit ({m}) {k})"


class Imports:
    """module-level names for numpy"""

    def __init__(self, tree: ast.Module):
        self.np_alias = set()
        self.pi_names = set()
        self.utils_alias = set()   # names bound to the module ethz_snow.utils
        for st in tree.body:
            if isinstance(st, ast.Import):
                for a in st.names:
                    if a.name == "numpy":
                        self.np_alias.add(a.asname or "numpy")
                    if a.name == "ethz_snow.utils" and a.asname:
                        self.utils_alias.add(a.asname)
            elif isinstance(st, ast.ImportFrom) and st.module in ("ethz_snow", None, "") and any(
                    a.name == "utils" for a in st.names):
                for a in st.names:
                    if a.name == "utils":
                        self.utils_alias.add(a.asname or "utils")
            elif isinstance(st, ast.ImportFrom) and st.module == "numpy":
                for a in st.names:
                    if a.name == "pi":
                        self.pi_names.add(a.asname or "pi")


class Tr:
    """expression / condition translator with an effect list (ANF in evaluation order)"""

    def __init__(self, src, fname, imports, mode, config_name=None):
        self.src = src
        self.fname = fname
        self.imp = imports
        self.mode = mode  # "numpy" | "py"
        self.config_name = config_name
        self.env = {}  # python name -> "num" | "str"
        self.ntemp = 0
        self.needs_transc = False
        self.needs_pi = False
        self.num_paths = []
        self.str_paths = []
        self.raw_paths = []

    # -- helpers
    def fresh(self):
        self.ntemp += 1
        return f"τ{self.ntemp}"

    def bad(self, node, why):
        _bad(node, self.fname, why)

    def cfg_path(self, node):
        """`config["a"]["b"]…` -> ["a", "b", …] or None"""
        path = []
        n = node
        while isinstance(n, ast.Subscript):
            s = n.slice
            if not (isinstance(s, ast.Constant) and isinstance(s.value, str)):
                return None
            path.append(s.value)
            n = n.value
        if isinstance(n, ast.Name) and self.config_name is not None and n.id == self.config_name and path:
            return list(reversed(path))
        # an alias of a config SUBTREE (`geometry = config["vial"]["geometry"]`, bound once, see Derived.block)
        if isinstance(n, ast.Name) and n.id in getattr(self, "aliases", {}) and path:
            return self.aliases[n.id] + list(reversed(path))
        return None

    @staticmethod
    def path_lit(path):
        return "[" + ", ".join(lean_str(p) for p in path) + "]"

    def note(self, lst, path):
        if path not in lst:
            lst.append(path)

    # -- numeric expressions
    def num(self, n, out, target=None):
        """returns Lean code of type α; effects appended to `out` (list of lines).
        `target`: bind an effectful top-level node directly to this Lean name."""
        if isinstance(n, ast.Constant):
            return literal(n, self.src, self.fname)
        if isinstance(n, ast.Name):
            if not isinstance(n.ctx, ast.Load):
                self.bad(n, "name not in load context")
            if n.id in self.env:
                if self.env[n.id] != "num":
                    self.bad(n, f"string variable {n.id!r} used as a number")
                return lean_name(n.id)
            if n.id in self.imp.pi_names:
                self.needs_pi = True
                return "HasPi.pi"
            self.bad(n, f"unknown name {n.id!r} (not an argument or an earlier assignment)")
        if isinstance(n, ast.Attribute):
            if (isinstance(n.value, ast.Name) and n.value.id in self.imp.np_alias and n.value.id not in self.env
                    and n.attr == "pi"):
                self.needs_pi = True
                return "HasPi.pi"
            self.bad(n, "attribute not understood (only np.pi)")
        if isinstance(n, ast.UnaryOp):
            if isinstance(n.op, ast.USub):
                return f"(-{self.num(n.operand, out)})"
            self.bad(n, "unary operator not understood (only unary minus)")
        if isinstance(n, ast.BinOp):
            if type(n.op) in BINOPS:
                l = self.num(n.left, out)
                r = self.num(n.right, out)
                return f"({l} {BINOPS[type(n.op)]} {r})"
            if isinstance(n.op, ast.Div):
                l = self.num(n.left, out)
                r = self.num(n.right, out)
                if self.mode == "numpy":
                    return f"({l} / {r})"
                t = target or self.fresh()
                out.append(f"let {t} ← Py.div {l} {r}")
                return t
            if isinstance(n.op, ast.Pow):
                if self.mode == "py":
                    e = n.right
                    if not (isinstance(e, ast.Constant) and isinstance(e.value, int) and not isinstance(e.value, bool)
                            and e.value >= 0):
                        self.bad(n, "`**` on Python floats only with a non-negative integer literal exponent "
                                    "(other exponents can raise or return complex)")
                l = self.num(n.left, out)
                r = self.num(n.right, out)
                self.needs_transc = True
                return f"(Transc.pow {l} {r})"
            self.bad(n, "binary operator not understood (only + - * / **)")
        if isinstance(n, ast.Call):
            f = n.func
            if n.keywords or len(n.args) != 1:
                self.bad(n, "call with keywords or not exactly one argument")
            if (isinstance(f, ast.Attribute) and isinstance(f.value, ast.Name) and f.value.id in self.imp.np_alias
                    and f.value.id not in self.env and f.attr in NP_FUNCS):
                self.needs_transc = True
                return f"({NP_FUNCS[f.attr]} {self.num(n.args[0], out)})"
            if isinstance(f, ast.Name) and f.id == "float" and "float" not in self.env and self.mode == "py":
                path = self.cfg_path(n.args[0])
                if path is None:
                    self.bad(n, "float(…) only of config[\"a\"][\"b\"]…")
                self.note(self.num_paths, path)
                t = target or self.fresh()
                out.append(f"let {t} ← Cfg.floatAt config {self.path_lit(path)}")
                return t
            self.bad(n, "call not understood (only np.exp/log/sqrt/tanh, float(config[…]))")
        self.bad(n, "expression not understood")

    # -- string expressions
    def string(self, n, out, target=None):
        if isinstance(n, ast.Name):
            if n.id in self.env and self.env[n.id] == "str":
                return lean_name(n.id)
            self.bad(n, f"{n.id!r} is not a string variable")
        if (isinstance(n, ast.Call) and isinstance(n.func, ast.Name) and n.func.id == "str" and "str" not in self.env
                and not n.keywords and len(n.args) == 1 and self.mode == "py"):
            path = self.cfg_path(n.args[0])
            if path is None:
                self.bad(n, "str(…) only of config[\"a\"][\"b\"]…")
            self.note(self.str_paths, path)
            t = target or self.fresh()
            out.append(f"let {t} ← Cfg.strAt config {self.path_lit(path)}")
            return t
        if self.mode == "py":
            path = self.cfg_path(n)
            if path is not None:
                self.note(self.raw_paths, path)
                t = target or self.fresh()
                out.append(f"let {t} ← Cfg.rawStrAt config {self.path_lit(path)}")
                return t
        self.bad(n, "string expression not understood (string variable, str(config[…]) or config[…])")

    def is_stringy(self, n):
        if isinstance(n, ast.Name):
            return self.env.get(n.id) == "str"
        if isinstance(n, ast.Call) and isinstance(n.func, ast.Name) and n.func.id == "str":
            return True
        return False

    def strconst(self, n):
        if isinstance(n, ast.Constant) and isinstance(n.value, str):
            return lean_str(n.value)
        self.bad(n, "string constant expected")

    # -- conditions
    def cond(self, n, out):
        if isinstance(n, ast.Compare) and len(n.ops) == 1 and len(n.comparators) == 1:
            op = n.ops[0]
            rhs = n.comparators[0]
            if isinstance(op, (ast.Eq, ast.NotEq)):
                s = self.string(n.left, out)
                c = self.strconst(rhs)
                return f"({s} == {c})" if isinstance(op, ast.Eq) else f"({s} != {c})"
            if isinstance(op, (ast.In, ast.NotIn)):
                s = self.string(n.left, out)
                if not isinstance(rhs, ast.Set) or not rhs.elts:
                    self.bad(n, "membership only in a non-empty set display of string constants")
                xs = "[" + ", ".join(self.strconst(e) for e in rhs.elts) + "]"
                c = f"(Py.elem {s} {xs})"
                return c if isinstance(op, ast.In) else f"(!{c})"
            self.bad(n, "comparison not understood (only == != in, not in on strings)")
        if (isinstance(n, ast.Call) and isinstance(n.func, ast.Attribute) and n.func.attr == "startswith"
                and not n.keywords and len(n.args) == 1):
            s = self.string(n.func.value, out)
            return f"(Py.startsWith {s} {self.strconst(n.args[0])})"
        self.bad(n, "condition not understood")


# ---------------------------------------------------------------------------
# utils.py : pure numpy formulas
# ---------------------------------------------------------------------------
EVAP_FUNCS = ["vapour_pressure_liquid", "vapour_pressure_solid", "vapour_flux"]


def _func(tree, name, fname):
    fs = [n for n in tree.body if isinstance(n, ast.FunctionDef) and n.name == name]
    if len(fs) != 1:
        raise TranslatorError(f"{fname}: expected exactly one top-level def {name}, found {len(fs)}")
    return fs[0]


def _plain_args(fd, fname):
    a = fd.args
    if a.vararg or a.kwarg or a.kwonlyargs or a.posonlyargs or fd.decorator_list:
        _bad(fd, fname, "only plain positional parameters, no decorators")
    return [x.arg for x in a.args], a.defaults


def _src_hash(src, fd):
    seg = ast.get_source_segment(src, fd) or ""
    return hashlib.sha256(seg.encode()).hexdigest()[:16]


def _is_doc(st):
    return isinstance(st, ast.Expr) and isinstance(st.value, ast.Constant) and isinstance(st.value.value, str)


def translate_evap(src: str, fname="utils.py") -> str:
    tree = ast.parse(src)
    imp = Imports(tree)
    defs = []
    needs_pi_any = False
    for name in EVAP_FUNCS:
        fd = _func(tree, name, fname)
        args, defaults = _plain_args(fd, fname)
        if defaults:
            _bad(fd, fname, "default arguments are not translated")
        tr = Tr(src, fname, imp, "numpy")
        for a in args:
            if a in tr.env:
                _bad(fd, fname, "duplicate parameter")
            tr.env[a] = "num"
        lines = []
        body = [st for i, st in enumerate(fd.body) if not (i == 0 and _is_doc(st))]
        ret = None
        for st in body:
            if ret is not None:
                _bad(st, fname, "statement after return")
            if isinstance(st, ast.Assign) and len(st.targets) == 1 and isinstance(st.targets[0], ast.Name):
                x = st.targets[0].id
                if x in tr.env:
                    _bad(st, fname, f"{x!r} assigned twice (single assignment only)")
                eff = []
                code = tr.num(st.value, eff)
                assert not eff
                tr.env[x] = "num"
                lines.append(f"  let {lean_name(x)} : α := {code}")
            elif isinstance(st, ast.Return) and st.value is not None:
                eff = []
                ret = tr.num(st.value, eff)
                assert not eff
            else:
                _bad(st, fname, "statement not understood (only `name = expr` and `return expr`)")
        if ret is None:
            _bad(fd, fname, "function does not return a value")
        needs_pi_any = needs_pi_any or tr.needs_pi
        params = " ".join(lean_name(a) for a in args)
        defs.append(
            f"/-- `{fname}:{fd.lineno}` `def {name}({', '.join(args)})` (source sha256 {_src_hash(src, fd)}) -/\n"
            f"def {lean_name(name)} ({params} : α) : α :=\n" + "\n".join(lines) + ("\n" if lines else "") + f"  {ret}\n")
    head = (
        "/-\n  GENERATED by harness/translate.py from src/ethz_snow/utils.py - DO NOT EDIT.\n"
        "  Regenerated on every `./check C20 …`; the theorems of SnowProofs/Props/C20.lean are\n"
        "  re-checked against this text.  numpy semantics: `/` is IEEE division (no exception).\n-/\n"
        "import SnowModel.Num\nimport SnowModel.GenSupport\n\nnamespace Snow.Gen\n"
        "variable {α : Type} [Transc α] [HasPi α]\n\n")
    return head + "\n".join(defs) + "\nend Snow.Gen\n"


# ---------------------------------------------------------------------------
# constants.calculateDerived
# ---------------------------------------------------------------------------
def _assigned(stmts):
    out = []
    for st in stmts:
        if isinstance(st, ast.Assign):
            for t in st.targets:
                if isinstance(t, ast.Name) and t.id not in out:
                    out.append(t.id)
        elif isinstance(st, ast.If):
            for x in _assigned(st.body) + _assigned(st.orelse):
                if x not in out:
                    out.append(x)
    return out


def _used(stmts):
    """names read, and names listed as strings in list displays (constVars)"""
    s = set()
    for st in stmts:
        for n in ast.walk(st):
            if isinstance(n, ast.Name) and isinstance(n.ctx, ast.Load):
                s.add(n.id)
            elif isinstance(n, ast.List):
                for e in n.elts:
                    if isinstance(e, ast.Constant) and isinstance(e.value, str):
                        s.add(e.value)
    return s


class Derived:
    CV = "constVars"

    def __init__(self, src, fname):
        self.src = src
        self.fname = fname
        self.tree = ast.parse(src)
        self.imp = Imports(self.tree)
        self.fd = _func(self.tree, "calculateDerived", fname)
        self.tr = Tr(src, fname, self.imp, "py")
        self.cv_ver = 0        # current Lean name index of constVars (0 = not yet defined)
        self.cv_count = 0
        self.cv_names = []     # every name ever listed (for duplicate detection per path we use sets below)
        self.const_name = None
        self.bundled = False
        self.all_listed = []

    def bad(self, node, why):
        _bad(node, self.fname, why)

    def cv(self):
        return f"constVars_{self.cv_ver}"

    def new_cv(self):
        self.cv_count += 1
        self.cv_ver = self.cv_count
        return self.cv()

    def name_list(self, node, listed):
        if not isinstance(node, ast.List):
            self.bad(node, "list display of string constants expected")
        items = []
        for e in node.elts:
            if not (isinstance(e, ast.Constant) and isinstance(e.value, str)):
                self.bad(e, "constVars entries must be string constants")
            x = e.value
            if x not in self.tr.env:
                self.bad(e, f"constVars lists {x!r} before it is assigned (locals()[{x!r}] is not modelled then)")
            if x in listed:
                self.bad(e, f"{x!r} listed twice in constVars")
            listed.add(x)
            if x not in self.all_listed:
                self.all_listed.append(x)
            ctor = ".num" if self.tr.env[x] == "num" else ".str"
            items.append(f"({lean_str(x)}, {ctor} {lean_name(x)})")
        return "[" + ", ".join(items) + "]"

    def lean_type(self, x):
        if x == self.CV:
            return "List (String × Val α)"
        return "α" if self.tr.env[x] == "num" else "String"

    # returns True when every path through the block raises
    def block(self, stmts, used_after, out, ind, listed):
        pad = "  " * ind
        i = 0
        while i < len(stmts):
            st = stmts[i]
            rest = stmts[i + 1:]
            if self.bundled and not isinstance(st, ast.Return):
                self.bad(st, "statement between the bundling loop and `return const`")
            if _is_doc(st):
                i += 1
                continue
            # --- raise
            if isinstance(st, ast.Raise):
                e = st.exc
                ok = (isinstance(e, ast.Name) and e.id == "NotImplementedError") or (
                    isinstance(e, ast.Call) and isinstance(e.func, ast.Name) and e.func.id == "NotImplementedError")
                if not ok or st.cause is not None:
                    self.bad(st, "only `raise NotImplementedError(…)` is translated")
                if isinstance(e, ast.Call):
                    self.check_message(e)
                if rest:
                    self.bad(rest[0], "unreachable statement after raise")
                out.append(pad + 'Except.error "NotImplementedError"')
                return True
            # --- return const
            if isinstance(st, ast.Return):
                if not (isinstance(st.value, ast.Name) and st.value.id == self.const_name and self.bundled):
                    self.bad(st, "only `return const` after the bundling loop is translated")
                if rest or ind != 1:
                    self.bad(st, "return must be the last top-level statement")
                out.append(pad + f"Except.ok {self.cv()}")
                return False
            # --- bundling loop
            if isinstance(st, ast.For):
                self.check_bundle(st)
                if ind != 1 or self.cv_ver == 0:
                    self.bad(st, "bundling loop must be top-level and after constVars is defined")
                self.bundled = True
                i += 1
                continue
            # --- constVars.extend([...])
            if isinstance(st, ast.Expr):
                c = st.value
                if (isinstance(c, ast.Call) and isinstance(c.func, ast.Attribute) and c.func.attr == "extend"
                        and isinstance(c.func.value, ast.Name) and c.func.value.id == self.CV
                        and len(c.args) == 1 and not c.keywords and self.cv_ver != 0):
                    old = self.cv()
                    items = self.name_list(c.args[0], listed)
                    new = self.new_cv()
                    out.append(pad + f"let {new} : List (String × Val α) := {old} ++ {items}")
                    i += 1
                    continue
                self.bad(st, "expression statement not understood (only constVars.extend([...]))")
            # --- assignments
            if isinstance(st, ast.Assign):
                if len(st.targets) != 1 or not isinstance(st.targets[0], ast.Name):
                    self.bad(st, "only `name = expr`")
                x = st.targets[0].id
                v = st.value
                # config = _loadConfig(fpath)
                if (isinstance(v, ast.Call) and isinstance(v.func, ast.Name) and v.func.id == "_loadConfig"):
                    args, _ = _plain_args(self.fd, self.fname)
                    if not (ind == 1 and self.tr.config_name is None and len(v.args) == 1 and not v.keywords
                            and isinstance(v.args[0], ast.Name) and args == [v.args[0].id]):
                        self.bad(st, "`config = _loadConfig(<the only parameter>)` expected once, at top level")
                    self.tr.config_name = x
                    i += 1
                    continue
                # const = dict()
                if (isinstance(v, ast.Call) and isinstance(v.func, ast.Name) and v.func.id == "dict"
                        and not v.args and not v.keywords):
                    if self.const_name is not None or ind != 1:
                        self.bad(st, "`const = dict()` expected once, at top level")
                    self.const_name = x
                    i += 1
                    continue
                if x == self.tr.config_name or x == self.const_name:
                    self.bad(st, "config / const reassigned")
                if x == self.CV:
                    if self.cv_ver != 0 or ind != 1:
                        self.bad(st, "constVars must be created once, at top level")
                    items = self.name_list(v, listed)
                    new = self.new_cv()
                    out.append(pad + f"let {new} : List (String × Val α) := {items}")
                    i += 1
                    continue
                if x in self.tr.env:
                    self.bad(st, f"{x!r} assigned twice on one path (single assignment only)")
                lx = lean_name(x)
                eff = []
                if self.tr.cfg_path(v) is not None and ind == 1 and x not in getattr(self.tr, "aliases", {}):
                    # alias of a config subtree: a Name bound ONCE (top level) to a pure config[...] path and only
                    # subscripted afterwards (any other use is an unknown name).  Python evaluates the path here
                    # (KeyError / TypeError); the model does so at the first lookup through the alias, which is
                    # the same exception at the same place when the NEXT statement starts with such a lookup;
                    # otherwise the path is checked here explicitly.
                    if not hasattr(self.tr, "aliases"):
                        self.tr.aliases = {}
                    path = self.tr.cfg_path(v)
                    if not (rest and self._first_lookup_via(rest[0], x)):
                        out.append(pad + f"let _ ← Cfg.itemPath config {Tr.path_lit(path)}")
                    self.tr.aliases[x] = path
                    i += 1
                    continue
                if self.tr.is_stringy(v) or self.tr.cfg_path(v) is not None:
                    if self.tr.cfg_path(v) is not None:
                        self.bad(st, "a bare config[…] value may be a number, a string or a dict: wrap it in float()/str()")
                    code = self.tr.string(v, eff, target=lx)
                    typ = "str"
                else:
                    code = self.tr.num(v, eff, target=None)
                    typ = "num"
                # bind a single top-level effect directly to the variable
                if eff and code == eff[-1].split()[1] and code.startswith("τ"):
                    eff[-1] = eff[-1].replace(f"let {code} ←", f"let {lx} ←", 1)
                    for l in eff:
                        out.append(pad + l)
                else:
                    for l in eff:
                        out.append(pad + l)
                    if code != lx:
                        out.append(pad + f"let {lx} : {'α' if typ == 'num' else 'String'} := {code}")
                self.tr.env[x] = typ
                i += 1
                continue
            # --- if / elif / else
            if isinstance(st, ast.If):
                eff = []
                c = self.tr.cond(st.test, eff)
                for l in eff:
                    out.append(pad + l)
                after = _used(rest) | used_after
                cand = [x for x in _assigned(st.body) + _assigned(st.orelse)]
                live = []
                for x in cand:
                    if x in after and x not in live and x != self.CV:
                        live.append(x)
                env0 = dict(self.tr.env)
                cv0 = self.cv_ver
                branches = []
                for blk in (st.body, st.orelse):
                    self.tr.env = dict(env0)
                    self.cv_ver = cv0
                    bout = []
                    bl = set(listed)
                    term = self.block(blk, after, bout, ind + 2, bl) if blk else False
                    branches.append((bout, term, dict(self.tr.env), self.cv_ver, bl))
                cv_changed = any((not t) and v != cv0 for (_, t, _, v, _) in branches)
                # types of the live-out variables must agree on the non-raising branches
                types = {}
                for (_, term, env, _, _) in branches:
                    if term:
                        continue
                    for x in live:
                        if x not in env:
                            self.bad(st, f"{x!r} is used later but not assigned on every non-raising path")
                        if types.setdefault(x, env[x]) != env[x]:
                            self.bad(st, f"{x!r} is a number on one path and a string on another")
                outs = [lean_name(x) for x in live]
                self.tr.env = dict(env0)
                for x in live:
                    self.tr.env[x] = types[x]
                tys = [("α" if types[x] == "num" else "String") for x in live]
                if cv_changed:
                    tys.append("List (String × Val α)")
                rty = "Unit" if not tys else tys[0] if len(tys) == 1 else " × ".join(tys)
                rty = rty if re.fullmatch(r"\w+", rty) else "(" + rty + ")"
                texts = []
                for (bout, term, env, v, bl) in branches:
                    if not term:
                        vals = list(outs)
                        if cv_changed:
                            vals.append(f"constVars_{v}")
                        val = "()" if not vals else vals[0] if len(vals) == 1 else "(" + ", ".join(vals) + ")"
                        bout = bout + ["  " * (ind + 2) + f"Except.ok {val}"]
                    texts.append("\n".join(bout))
                if all(t for (_, t, _, _, _) in branches):
                    # both paths raise: the rest is unreachable
                    if rest:
                        self.bad(rest[0], "unreachable statement (every path of the preceding if raises)")
                # listed names: union over non-raising branches
                for (_, term, _, _, bl) in branches:
                    if not term:
                        listed |= bl
                self.cv_ver = cv0
                binder = list(outs)
                if cv_changed:
                    binder.append(self.new_cv())
                if not binder:
                    lhs = ""
                elif len(binder) == 1:
                    lhs = f"let {binder[0]} ← "
                else:
                    lhs = "let (" + ", ".join(binder) + ") ← "
                out.append(pad + f"{lhs}(show Except String {rty} from if {c} then (do")
                out.append(texts[0] + ")")
                out.append(pad + "  else (do")
                out.append(texts[1] + "))")
                if all(t for (_, t, _, _, _) in branches):
                    return True
                i += 1
                continue
            self.bad(st, "statement not understood")
        return False

    def _first_lookup_via(self, st, alias):
        """does the first config lookup evaluated by statement `st` go through `alias`?"""
        roots = []
        if isinstance(st, ast.Assign):
            roots = [st.value]
        elif isinstance(st, ast.If):
            roots = [st.test]
        elif isinstance(st, ast.Expr):
            roots = [st.value]

        def first(n):
            # evaluation order: children left to right, then the node
            if isinstance(n, ast.Subscript):
                b = n
                while isinstance(b, ast.Subscript):
                    b = b.value
                if isinstance(b, ast.Name) and (b.id == alias or b.id == self.tr.config_name
                                                or b.id in getattr(self.tr, "aliases", {})):
                    return b.id
            for c in ast.iter_child_nodes(n):
                r = first(c)
                if r is not None:
                    return r
            return None
        for r in roots:
            f = first(r)
            if f is not None:
                return f == alias
        return False

    def check_message(self, call):
        """the message of a raise is not translated, so building it must not be able to raise something
        else first: only constants, f-strings, `+`, known variables and config lookups already performed"""
        seen = self.tr.num_paths + self.tr.str_paths + self.tr.raw_paths
        if call.keywords:
            self.bad(call, "keyword arguments in a raise")

        def ok(n):
            if isinstance(n, ast.Constant):
                return True
            if isinstance(n, ast.JoinedStr):
                return all(ok(v) for v in n.values)
            if isinstance(n, ast.FormattedValue):
                return ok(n.value) and (n.format_spec is None or ok(n.format_spec))
            if isinstance(n, ast.BinOp) and isinstance(n.op, ast.Add):
                return ok(n.left) and ok(n.right)
            if isinstance(n, ast.Name):
                return n.id in self.tr.env
            if isinstance(n, ast.Subscript):
                return self.tr.cfg_path(n) in seen
            return False
        for a in call.args:
            if not ok(a):
                self.bad(a, "exception message could itself raise (only constants, f-strings, +, known variables "
                            "and config lookups already performed are accepted)")

    def check_bundle(self, st):
        ok = (
            isinstance(st.target, ast.Name) and isinstance(st.iter, ast.Name) and st.iter.id == self.CV
            and not st.orelse and len(st.body) == 1 and isinstance(st.body[0], ast.Assign)
        )
        if ok:
            a = st.body[0]
            v = st.target.id
            t = a.targets[0] if len(a.targets) == 1 else None
            ok = (
                isinstance(t, ast.Subscript) and isinstance(t.value, ast.Name) and t.value.id == self.const_name
                and isinstance(t.slice, ast.Name) and t.slice.id == v
                and isinstance(a.value, ast.Subscript) and isinstance(a.value.slice, ast.Name)
                and a.value.slice.id == v and isinstance(a.value.value, ast.Call)
                and isinstance(a.value.value.func, ast.Name) and a.value.value.func.id == "locals"
                and not a.value.value.args and not a.value.value.keywords
            )
        if not ok:
            self.bad(st, "only the bundling loop `for v in constVars: const[v] = locals()[v]` is translated")

    def run(self):
        fd = self.fd
        args, defaults = _plain_args(fd, self.fname)
        if len(args) != 1:
            self.bad(fd, "calculateDerived is expected to take the config path only")
        out = []
        listed = set()
        term = self.block(fd.body, set(), out, 1, listed)
        if term:
            self.bad(fd, "every path of calculateDerived raises")
        if not out or not out[-1].strip().startswith("Except.ok"):
            self.bad(fd, "calculateDerived does not end with `return const`")
        tr = self.tr

        def plist(ps):
            return "[" + ", ".join(Tr.path_lit(p) for p in ps) + "]"

        cls = "[Transc α]" + (" [HasPi α]" if tr.needs_pi else "") if (tr.needs_transc or tr.needs_pi) else "[Num α]"
        head = (
            "/-\n  GENERATED by harness/translate.py from src/ethz_snow/constants.py - DO NOT EDIT.\n"
            "  Regenerated on every `./check C19 …`; the theorems of SnowProofs/Props/C19.lean are\n"
            "  re-checked against this text.  `config` is the tree returned by `_loadConfig`.\n"
            "  Statements are in source order inside `Except String`: the first exception of the\n"
            "  model is the first exception of the code.  Python floats: `/` is `Py.div`.\n-/\n"
            "import SnowModel.Num\nimport SnowModel.Config\nimport SnowModel.GenSupport\n\n"
            "set_option linter.unusedVariables false\n\nnamespace Snow.Gen\n"
            f"variable {{α : Type}} {cls}\n\n")
        body = (
            f"/-- `{self.fname}:{fd.lineno}` `def calculateDerived({args[0]})` after `_loadConfig` "
            f"(source sha256 {_src_hash(self.src, fd)}) -/\n"
            "def calculateDerived (config : Cfg α) : Except String (List (String × Val α)) := do\n"
            + "\n".join(out) + "\n\n"
            "/-- every `float(config[…])` path read by `calculateDerived`, in source order -/\n"
            f"def numPaths : List (List String) := {plist(tr.num_paths)}\n\n"
            "/-- every `str(config[…])` path -/\n"
            f"def strPaths : List (List String) := {plist(tr.str_paths)}\n\n"
            "/-- every `config[…]` value used as a string object without conversion -/\n"
            f"def rawStrPaths : List (List String) := {plist(tr.raw_paths)}\n\n"
            "/-- every name that can appear in the returned dict -/\n"
            "def constNames : List String := [" + ", ".join(lean_str(x) for x in self.all_listed) + "]\n")
        return head + body + "\nend Snow.Gen\n"


def translate_derived(src: str, fname="constants.py") -> str:
    return Derived(src, fname).run()


# ---------------------------------------------------------------------------
# formula extraction: single assignments inside the run loops
# ---------------------------------------------------------------------------
class Formula:
    """one target: the `occ`-th assignment (source order, 1-based) whose target reads `target`
    (as printed by `ast.unparse`, e.g. `T_new`, `sigma_k[solidMask]`, `self._stats['t_sol']`)
    inside `func` (`Class.method` or `function`); emitted as the Lean definition `name`."""

    def __init__(self, name, target, occ=1, ints=(), kind="expr", inline=()):
        self.name, self.target, self.occ = name, target, occ
        self.inline = set(inline)  # for a definition not yet committed: the local names to inline (others stay parameters)
        self.ints = set(ints)     # names that hold Python ints (emitted as `Int` parameters)
        self.kind = kind          # "expr" | "sortkey" (the `sorted(..., key=lambda …, reverse=…)` pattern)


def _find_func(tree, qual, fname):
    parts = qual.split(".")
    body = tree.body
    node = None
    for i, part in enumerate(parts):
        kinds = (ast.FunctionDef,) if i == len(parts) - 1 else (ast.ClassDef,)
        part, _, deco = part.partition("@")   # `holding@setter`: the def decorated with `@….setter`
        found = [n for n in body if isinstance(n, kinds) and n.name == part]
        if deco:
            found = [n for n in found if any(isinstance(d, ast.Attribute) and d.attr == deco
                                             for d in n.decorator_list)]
        if len(found) != 1:
            raise TranslatorError(f"{fname}: expected exactly one definition of {'.'.join(parts[:i + 1])}, "
                                  f"found {len(found)}")
        node = found[0]
        body = node.body
    return node


def _assignments(stmts, out):
    """every (target text, value node, statement) in source order; compound statements are entered,
    nested functions/classes are not"""
    for st in stmts:
        if isinstance(st, ast.Assign):
            for t in st.targets:
                out.append((ast.unparse(t), st.value, st, None))
        elif isinstance(st, ast.AugAssign):
            out.append((ast.unparse(st.target), st.value, st, st.op))
        elif isinstance(st, ast.AnnAssign) and st.value is not None:
            out.append((ast.unparse(st.target), st.value, st, None))
        elif isinstance(st, (ast.For, ast.While)):
            _assignments(st.body, out)
            _assignments(st.orelse, out)
        elif isinstance(st, ast.If):
            _assignments(st.body, out)
            _assignments(st.orelse, out)
        elif isinstance(st, ast.With):
            _assignments(st.body, out)
        elif isinstance(st, ast.Try):
            _assignments(st.body, out)
            for h in st.handlers:
                _assignments(h.body, out)
            _assignments(st.orelse, out)
            _assignments(st.finalbody, out)
    return out


UTILS_CALLS = {"vapour_flux": "N_w", "vapour_pressure_liquid": "p_liq", "vapour_pressure_solid": "p_sol"}
_UTILS_SIG = {}


def _utils_signature(fn):
    """parameter names of utils.<fn> in the CURRENT source"""
    if not _UTILS_SIG:
        tree = ast.parse(source("utils.py"))
        for st in tree.body:
            if isinstance(st, ast.FunctionDef) and st.name in UTILS_CALLS:
                args, defaults = _plain_args(st, "utils.py")
                _UTILS_SIG[st.name] = args
    if fn not in _UTILS_SIG:
        raise TranslatorError(f"utils.py has no function {fn}")
    return _UTILS_SIG[fn]


class LocalDefs:
    """Sound inlining of local single-assignment definitions (`dt = self.dt`, `heat_capacity = cp_solution * mass`,
    `sigma_solid = sigma_k[solidMask]`) into a target formula, so that a refactoring that merely NAMES a
    sub-expression does not change the generated text.

    A Name `x` read in the target statement S is replaced by the right-hand side of its definition D iff
      (a) `x` is not one of the parameter names the committed generated definition already has (`keep`),
      (b) `x` has exactly one binding in the function and it is a plain `x = <expr>` (no augmented / tuple / loop /
          with / import / parameter binding, no global/nonlocal/del),
      (c) D precedes S and sits in a block that encloses S (so D has run whenever S runs),
      (d) nothing D reads can have changed between D and S: no binding of, and no subscript/attribute store or
          method call through, any name read by D in the statements between D and S, nor anywhere inside a loop
          that encloses S but not D.  `obj.attr` reads conflict only with stores/calls through the same
          `obj.attr` (or a rebinding of `obj`, or a method called on `obj` itself).
    The replacement is the translated expression of D (parenthesised as every compound expression is), so the
    float operation order is unchanged.  Applied recursively (each inlined name is checked against the same S)."""

    def __init__(self, fd, tree=None):
        self.fd = fd
        # functions imported by name from numpy / scipy (`from scipy.integrate import simps`): numerical library
        # functions that return new arrays and do not modify their arguments
        self.pure_names = set()
        self.utils_alias = Imports(tree).utils_alias if tree is not None else set()
        for st in (tree.body if tree is not None else []):
            if isinstance(st, ast.ImportFrom) and st.module and st.module.split(".")[0] in ("numpy", "scipy"):
                self.pure_names |= {a.asname or a.name for a in st.names}
        self.stmts = []       # (order, node, path) for every simple statement; path = tuple of compound-node ids
        self.loops_of = {}    # id(stmt) -> tuple of enclosing loop nodes
        self.bind = {}        # name -> list of (kind, stmt)
        self.params = {a.arg for a in fd.args.args + fd.args.kwonlyargs + fd.args.posonlyargs}
        if fd.args.vararg:
            self.params.add(fd.args.vararg.arg)
        if fd.args.kwarg:
            self.params.add(fd.args.kwarg.arg)
        self.bad_names = set()
        self._walk(fd.body, (), ())

    def _b(self, name, kind, st):
        self.bind.setdefault(name, []).append((kind, st))

    def _targets(self, t, kind, st):
        if isinstance(t, ast.Name):
            self._b(t.id, kind, st)
        elif isinstance(t, (ast.Tuple, ast.List)):
            for e in t.elts:
                self._targets(e, "tuple", st)
        elif isinstance(t, ast.Starred):
            self._targets(t.value, "tuple", st)

    def _walk(self, stmts, path, loops):
        for st in stmts:
            self.stmts.append((len(self.stmts), st, path))
            self.loops_of[id(st)] = loops
            if isinstance(st, ast.Assign):
                for t in st.targets:
                    self._targets(t, "plain" if (len(st.targets) == 1 and isinstance(t, ast.Name)) else "multi", st)
            elif isinstance(st, ast.AugAssign):
                self._targets(st.target, "aug", st)
            elif isinstance(st, ast.AnnAssign):
                self._targets(st.target, "ann", st)
            elif isinstance(st, (ast.For, ast.AsyncFor)):
                self._targets(st.target, "for", st)
                self._walk(st.body, path + ((id(st), "body"),), loops + (st,))
                self._walk(st.orelse, path + ((id(st), "else"),), loops)
            elif isinstance(st, ast.While):
                self._walk(st.body, path + ((id(st), "body"),), loops + (st,))
                self._walk(st.orelse, path + ((id(st), "else"),), loops)
            elif isinstance(st, ast.If):
                self._walk(st.body, path + ((id(st), "body"),), loops)
                self._walk(st.orelse, path + ((id(st), "else"),), loops)
            elif isinstance(st, (ast.With, ast.AsyncWith)):
                for it in st.items:
                    if it.optional_vars is not None:
                        self._targets(it.optional_vars, "with", st)
                self._walk(st.body, path + ((id(st), "body"),), loops)
            elif isinstance(st, ast.Try):
                for blk, nm in ((st.body, "body"), (st.orelse, "else"), (st.finalbody, "final")):
                    self._walk(blk, path + ((id(st), nm),), loops)
                for h in st.handlers:
                    if h.name:
                        self._b(h.name, "except", st)
                    self._walk(h.body, path + ((id(st), "handler%d" % id(h)),), loops)
            elif isinstance(st, (ast.Import, ast.ImportFrom)):
                for a in st.names:
                    self._b((a.asname or a.name).split(".")[0], "import", st)
            elif isinstance(st, (ast.FunctionDef, ast.AsyncFunctionDef, ast.ClassDef)):
                self._b(st.name, "def", st)
            elif isinstance(st, (ast.Global, ast.Nonlocal)):
                self.bad_names |= set(st.names)
            elif isinstance(st, ast.Delete):
                for t in st.targets:
                    for n in ast.walk(t):
                        if isinstance(n, ast.Name):
                            self.bad_names.add(n.id)
        # walrus / comprehension bindings anywhere
        for st in stmts:
            for n in ast.walk(st):
                if isinstance(n, ast.NamedExpr) and isinstance(n.target, ast.Name):
                    self._b(n.target.id, "walrus", st)

    @staticmethod
    def _chain(n):
        """(base name, first attribute or None) of an attribute/subscript chain"""
        first = None
        while isinstance(n, (ast.Attribute, ast.Subscript)):
            if isinstance(n, ast.Attribute):
                first = n.attr
            else:
                first = None if first is None else first
                # a subscript on the way resets nothing: obj.attr[...] is still `obj.attr`
            n = n.value
        return (n.id, first) if isinstance(n, ast.Name) else (None, None)

    @staticmethod
    def _reads(expr):
        """names read by an expression: set of (base, first attribute or None)"""
        out = set()

        def go(n):
            if isinstance(n, (ast.Attribute, ast.Subscript)):
                b, a = LocalDefs._chain(n)
                if b is not None:
                    out.add((b, a))
                # index expressions are reads too
                m = n
                while isinstance(m, (ast.Attribute, ast.Subscript)):
                    if isinstance(m, ast.Subscript):
                        go(m.slice)
                    m = m.value
                return
            if isinstance(n, ast.Name):
                out.add((n.id, None))
                return
            for c in ast.iter_child_nodes(n):
                go(c)
        go(expr)
        return out

    def _writes(self, st):
        """what a statement (not entering nested compound bodies - they are listed separately) may change:
        set of (base, first attr or None); (base, '*') = anything reachable from base"""
        out = set()

        def store(t):
            if isinstance(t, ast.Name):
                out.add((t.id, "*"))
            elif isinstance(t, (ast.Tuple, ast.List)):
                for e in t.elts:
                    store(e)
            elif isinstance(t, ast.Starred):
                store(t.value)
            elif isinstance(t, (ast.Attribute, ast.Subscript)):
                b, a = self._chain(t)
                if b is not None:
                    out.add((b, a if a is not None else "*"))
        heads = []
        if isinstance(st, ast.Assign):
            for t in st.targets:
                store(t)
            heads = [st.value]
        elif isinstance(st, (ast.AugAssign, ast.AnnAssign)):
            store(st.target)
            heads = [st.value] if st.value is not None else []
        elif isinstance(st, (ast.For, ast.AsyncFor)):
            store(st.target)
            heads = [st.iter]
        elif isinstance(st, (ast.While, ast.If)):
            heads = [st.test]
        elif isinstance(st, (ast.With, ast.AsyncWith)):
            for it in st.items:
                heads.append(it.context_expr)
                if it.optional_vars is not None:
                    store(it.optional_vars)
        elif isinstance(st, (ast.Expr, ast.Return)):
            heads = [st.value] if st.value is not None else []
        elif isinstance(st, ast.Delete):
            for t in st.targets:
                store(t)
        elif isinstance(st, (ast.FunctionDef, ast.AsyncFunctionDef, ast.ClassDef)):
            out.add((st.name, "*"))
        elif isinstance(st, (ast.Raise, ast.Assert)):
            heads = [x for x in (getattr(st, "exc", None), getattr(st, "test", None), getattr(st, "msg", None)) if x]
        for h in heads:
            for n in ast.walk(h):
                if isinstance(n, ast.Call):
                    f = n.func
                    if isinstance(f, ast.Attribute):
                        # obj.attr.method(...) may change obj.attr; obj.method(...) may change anything of obj
                        b, a = self._chain(f.value)
                        if b is not None:
                            out.add((b, a if a is not None else "*"))
                    # arguments passed by reference may be mutated by the callee (numpy functions and the
                    # builtins below do not)
                    pure = (isinstance(f, ast.Attribute) and isinstance(f.value, ast.Name)
                            and f.value.id in ("np", "numpy", "math")
                            and f.attr not in ("put", "copyto", "place", "putmask", "fill_diagonal", "put_along_axis")) \
                        or (isinstance(f, ast.Name) and f.id in ("len", "int", "float", "enumerate", "range", "print", "any",
                                                                 "all", "sum", "min", "max", "abs", "isinstance", "str", "zip")) \
                        or (isinstance(f, ast.Name) and f.id in self.pure_names and f.id not in self.bind) \
                        or (isinstance(f, ast.Attribute) and isinstance(f.value, ast.Name)
                            and f.value.id in self.utils_alias and f.attr in UTILS_CALLS)
                    if isinstance(f, ast.Attribute) and isinstance(f.value, ast.Name) and (
                            f.value.id in ("np", "numpy", "math") or f.value.id in self.utils_alias):
                        out.discard((f.value.id, "*"))
                    for arg in ([] if pure else list(n.args) + [k.value for k in n.keywords]):
                        for m in ast.walk(arg):
                            if isinstance(m, (ast.Attribute, ast.Subscript)):
                                b, a = self._chain(m)
                                if b is not None:
                                    out.add((b, a if a is not None else "*"))
                            elif isinstance(m, ast.Name):
                                out.add((m.id, "mut"))
                elif isinstance(n, ast.NamedExpr):
                    store(n.target)
        return out

    @staticmethod
    def _conflict(reads, writes):
        for (wb, wa) in writes:
            for (rb, ra) in reads:
                if wb != rb:
                    continue
                if wa in ("*", "mut"):
                    return True            # rebound, stored into without an attribute, or handed to a callee
                if ra is None or ra == wa:
                    return True            # the object itself is read, or the same attribute
        return False

    def definition(self, name, target_stmt):
        """the defining expression of `name` that REACHES `target_stmt` if it may be inlined there, else None.
        D is the last binding of `name` before S in source order; it must be a plain `name = <expr>` in a block that
        encloses S (so it has run whenever S runs), and neither `name` nor anything D reads may be re-bound / stored
        into / handed to a callee between D and S, nor anywhere in a loop that encloses S but not D."""
        if name in self.params or name in self.bad_names:
            return None
        pos = {id(st): (i, path) for (i, st, path) in self.stmts}
        if id(target_stmt) not in pos:
            return None
        iS, pS = pos[id(target_stmt)]
        before = [(pos[id(st)][0], kind, st) for (kind, st) in self.bind.get(name, [])
                  if id(st) in pos and pos[id(st)][0] < iS]
        if not before:
            return None
        iD, kind, D = max(before, key=lambda t: t[0])
        pD = pos[id(D)][1]
        if kind != "plain" or pS[:len(pD)] != pD:
            return None
        reads = self._reads(D.value) | {(name, None)}
        lD, lS = self.loops_of[id(D)], self.loops_of[id(target_stmt)]
        outer = [l for l in lS if l not in lD]
        region = [st for (i, st, _p) in self.stmts if iD < i < iS]
        if outer:
            L = outer[0]
            inside = set()
            for n in ast.walk(L):
                inside.add(id(n))
            region += [st for (_i, st, _p) in self.stmts if id(st) in inside and st is not L]
            region.append(L)
        for st in region:
            if st is D:
                continue
            if self._conflict(reads, self._writes(st)):
                return None
        return D.value


class FormulaTr:
    """expression -> Lean term whose parameters are the free names of the expression.

    names                      -> parameters (order of first appearance)
    subscripts / attributes    -> opaque scalar parameters named after their text
                                  (`T_k[1:Nz - 1]` -> `T_k_1_Nz_m_1`, `self.dt` -> `self_dt`); the formula is
                                  meant per node / per vial.  They must not contain calls.
    int literals               -> `Num.zero`, `Num.one`, `Num.ofNat' n`, `Num.ofInt (-n)`
    float literals             -> `Num.lit m k` with the digits of the literal text (`273.15` -> `lit 27315 2`)
    + - * /  unary minus       -> the operations of `Num` (`/` is the field division: numpy semantics)
    e ** 2, e ** -1            -> `e * e`, `Num.one / e` (what numpy computes for these exponents)
    e ** x (anything else)     -> `Transc.pow e x`
    np.exp/log/sqrt/tanh
    np.pi                      -> the parameter `np_pi` (the hand models carry pi as a constant of the run)
    anything else              -> TranslatorError
    """

    def __init__(self, src, fname, imports, ints=(), inline=None):
        self.inline = inline      # (LocalDefs, target statement, keep-set of python names) or None
        self._inlining = []
        self.inlined = []         # (name, source text of its definition) actually substituted
        self.src, self.fname, self.imp = src, fname, imports
        self.params = {}   # key (python text) -> lean name
        self.ptypes = {}   # key -> "α" | "Int"
        self.ints = set(ints)
        self.needs_pi = False
        self.arange = None  # (length code, type, translator of the length) of the one np.arange in the formula
        self.uses_utils = False

    def bad(self, node, why):
        _bad(node, self.fname, why)

    def param(self, key, base, ty="α"):
        if key in self.params:
            if self.ptypes[key] != ty:
                raise TranslatorError(f"{self.fname}: `{key}` used both as a float and as an int")
            return self.params[key]
        nm = lean_name(base)
        used = set(self.params.values())
        while nm in used:
            nm = nm + "'"
        self.params[key] = nm
        self.ptypes[key] = ty
        return nm

    def binders(self):
        """`(a b : α) (n : Int) (c : α)` in parameter order"""
        out, run, cur = [], [], None
        for k, nm in self.params.items():
            t = self.ptypes[k]
            if t != cur and run:
                out.append(f"({' '.join(run)} : {cur})")
                run = []
            cur = t
            run.append(nm)
        if run:
            out.append(f"({' '.join(run)} : {cur})")
        return (" " + " ".join(out)) if out else ""

    # ---- typed layer: Int-valued and Bool-valued formulas ------------------------------------
    def is_call(self, n, mod_attr=None, name=None, nargs=None):
        if not isinstance(n, ast.Call) or n.keywords:
            return False
        if nargs is not None and len(n.args) != nargs:
            return False
        f = n.func
        if mod_attr is not None:
            return isinstance(f, ast.Attribute) and self.is_np(f.value) and f.attr == mod_attr
        return isinstance(f, ast.Name) and f.id == name and name not in self.params

    def texpr(self, n):
        """(code, type) with type in "α" | "Int" | "intlit" | "Bool".
        int(np.ceil(x))          -> Num.ceilInt x : Int
        len(name)                -> the Int parameter len_name
        names listed as ints     -> Int parameters;  int literals adapt to their context
        + - * on Int             -> Int arithmetic
        a >= b, a > b, a <= b, a < b on floats -> decide (b ≤ a) … : Bool   (elementwise for arrays)
        np.argmax(c), np.any(c)  -> the Bool formula c of ONE element (first-true / exists stay in the hand model)
        """
        if self.is_call(n, name="int", nargs=1) and self.is_call(n.args[0], mod_attr="ceil", nargs=1):
            return f"(Num.ceilInt {self.expr(n.args[0].args[0])})", "Int"
        if self.is_call(n, name="len", nargs=1) and isinstance(n.args[0], ast.Name):
            key = ast.unparse(n)
            return self.param(key, "len_" + n.args[0].id, "Int"), "Int"
        if isinstance(n, ast.Name) and n.id in self.ints:
            return self.param(n.id, n.id, "Int"), "Int"
        if isinstance(n, ast.Constant) and isinstance(n.value, int) and not isinstance(n.value, bool):
            return str(n.value), "intlit"
        if isinstance(n, ast.BinOp) and type(n.op) in BINOPS:
            (lc, lt), (rc, rt) = self.texpr(n.left), self.texpr(n.right)
            if "Int" in (lt, rt):
                if not {lt, rt} <= {"Int", "intlit"}:
                    self.bad(n, "Python int combined with a float: not translated")
                return f"({lc} {BINOPS[type(n.op)]} {rc})", "Int"
            if lt == rt == "intlit":
                self.bad(n, "arithmetic on int literals only")
            if lt in ("α", "intlit") and rt in ("α", "intlit"):
                lc = self.int_lit(int(lc)) if lt == "intlit" else lc
                rc = self.int_lit(int(rc)) if rt == "intlit" else rc
                return f"({lc} {BINOPS[type(n.op)]} {rc})", "α"
            self.bad(n, "operands of different kinds (float / int / bool)")
        if isinstance(n, ast.Compare) and len(n.ops) == 1 and len(n.comparators) == 1:
            a, b = self.expr(n.left), self.expr(n.comparators[0])
            op = n.ops[0]
            if isinstance(op, ast.GtE):
                return f"(decide ({b} ≤ {a}))", "Bool"
            if isinstance(op, ast.Gt):
                return f"(decide ({b} < {a}))", "Bool"
            if isinstance(op, ast.LtE):
                return f"(decide ({a} ≤ {b}))", "Bool"
            if isinstance(op, ast.Lt):
                return f"(decide ({a} < {b}))", "Bool"
            self.bad(n, "comparison not understood (only >= > <= < on floats)")
        if isinstance(n, ast.UnaryOp) and isinstance(n.op, ast.Invert):
            # `~mask` where `mask` is a local name DEFINED (soundly inlinable) as a comparison: the negated comparison
            o = n.operand
            if isinstance(o, ast.Name) and self.inline is not None and o.id not in self.params:
                d = self.inline[0].definition(o.id, self.inline[1])
                if d is not None and isinstance(d, ast.Compare):
                    c, t = self.texpr(d)
                    self.inlined.append((o.id, " ".join(ast.unparse(d).split())))
                    return f"(!{c})", "Bool"
            self.bad(n, "`~x` only of a local name defined as a comparison")
        if self.is_call(n, mod_attr="argmax", nargs=1) or self.is_call(n, mod_attr="any", nargs=1):
            c, t = self.texpr(n.args[0])
            if t != "Bool":
                self.bad(n, "np.argmax / np.any only of a comparison")
            return c, "Bool"
        return self.expr(n), "α"

    def utils_call(self, n, fn):
        """`Utils.vapour_flux(a, b, …)` -> the formula-mode definition `Gen.FU.N_w` applied with NAMED arguments taken
        from the signature of utils.py (so a swapped argument at the call site is seen)"""
        sig = _utils_signature(fn)
        if n.keywords and any(k.arg is None for k in n.keywords):
            self.bad(n, "**kwargs in a utils call")
        if len(n.args) > len(sig):
            self.bad(n, "too many arguments in a utils call")
        bound = dict(zip(sig, n.args))
        for k in n.keywords:
            if k.arg in bound or k.arg not in sig:
                self.bad(n, f"argument {k.arg!r} of a utils call")
            bound[k.arg] = k.value
        if set(bound) != set(sig):
            self.bad(n, "utils call does not supply every argument")
        parts = [f"({lean_name(a)} := {self.expr(bound[a])})" for a in sig]
        if fn == "vapour_flux":
            parts.append(f"(np_pi := {self.param('np.pi', 'np_pi')})")
        self.uses_utils = True
        return f"(Gen.FU.{UTILS_CALLS[fn]} " + " ".join(parts) + ")"

    def bexpr(self, n):
        """a Bool: comparisons joined by `&`/`and`, `|`/`or`"""
        if isinstance(n, ast.BinOp) and isinstance(n.op, (ast.BitAnd, ast.BitOr)):
            op = "&&" if isinstance(n.op, ast.BitAnd) else "||"
            return f"({self.bexpr(n.left)} {op} {self.bexpr(n.right)})"
        if isinstance(n, ast.BoolOp):
            op = "&&" if isinstance(n.op, ast.And) else "||"
            return "(" + f" {op} ".join(self.bexpr(v) for v in n.values) + ")"
        c, t = self.texpr(n)
        if t != "Bool":
            self.bad(n, "condition not understood (comparisons joined by & | and or)")
        return c

    def arange_elem(self, n):
        """`np.arange(N)`, `np.arange(0, stop)`, `np.arange(0, stop, step)` inside a formula: the value of
        element `arange_i`; the length goes to a companion definition `<name>_len`."""
        if self.arange is not None:
            self.bad(n, "more than one np.arange in a formula")
        if n.keywords or not 1 <= len(n.args) <= 3:
            self.bad(n, "np.arange form not understood")
        if len(n.args) >= 2:
            st = n.args[0]
            if not (isinstance(st, ast.Constant) and st.value == 0 and not isinstance(st.value, bool)):
                self.bad(n, "np.arange only with start 0")
        ltr = FormulaTr(self.src, self.fname, self.imp, self.ints, self.inline)
        i = self.param("<arange index>", "arange_i")
        if len(n.args) == 3:
            stop, step = ltr.expr(n.args[1]), ltr.expr(n.args[2])
            self.arange = (f"(Num.ceilInt ({stop} / {step}))", ltr)
            return f"({i} * {self.expr(n.args[2])})"
        c, t = ltr.texpr(n.args[-1])
        if t not in ("Int", "intlit"):
            self.bad(n, "np.arange(N): N must be an int (list it in `ints`)")
        self.arange = (c, ltr)
        return i

    @staticmethod
    def atom_name(text):
        t = text.replace("-", "m").replace("'", "").replace('"', "")
        t = re.sub(r"[^A-Za-z0-9_]", "_", t)
        t = re.sub(r"_+", "_", t).strip("_")
        if not t or not re.match(r"[A-Za-z_]", t):
            t = "x_" + t
        return t

    def int_lit(self, v):
        if v == 0:
            return "Num.zero"
        if v == 1:
            return "Num.one"
        if v > 0:
            return f"(Num.ofNat' {v})"
        return f"(Num.ofInt ({v}))"

    def lit(self, node, neg=False):
        v = node.value
        if isinstance(v, bool) or not isinstance(v, (int, float)):
            self.bad(node, "only decimal int/float literals are translated")
        text = ast.get_source_segment(self.src, node)
        if text is None or not _LIT.fullmatch(text):
            self.bad(node, f"literal text {text!r} is not a plain decimal literal")
        t = text.replace("_", "")
        if isinstance(v, int):
            if int(t) != v:
                self.bad(node, "integer literal text and value differ")
            return self.int_lit(-v if neg else v)
        q = Fraction(t)
        if float(q) != v:
            self.bad(node, "float literal text and value differ")
        mant, _, ex = t.lower().partition("e")
        ip, _, fp = mant.partition(".")
        k = len(fp) - (int(ex) if ex else 0)
        m = int((ip or "0") + fp)
        if k < 0:
            m, k = m * 10 ** (-k), 0
        if Fraction(m, 10 ** k) != q or k > 400:
            self.bad(node, "literal not understood")
        if neg:
            m = -m
        return f"(Num.lit {m} {k})" if m >= 0 else f"(Num.lit ({m}) {k})"

    def is_np(self, n):
        return isinstance(n, ast.Name) and n.id in self.imp.np_alias

    def expr(self, n):
        if isinstance(n, ast.Constant):
            return self.lit(n)
        if isinstance(n, ast.Name):
            if not isinstance(n.ctx, ast.Load):
                self.bad(n, "name not in load context")
            if n.id in self.imp.pi_names:
                return self.param("np.pi", "np_pi")
            if n.id in self.imp.np_alias:
                self.bad(n, "the numpy module used as a value")
            if self.inline is not None and n.id not in self.params and n.id not in self.inline[2] \
                    and n.id not in self._inlining and n.id not in self.ints:
                d = self.inline[0].definition(n.id, self.inline[1])
                if d is not None:
                    self._inlining.append(n.id)
                    snap = (dict(self.params), dict(self.ptypes), self.arange)
                    try:
                        try:
                            code = self.expr(d)
                            self.inlined.append((n.id, " ".join(ast.unparse(d).split())))
                            return code
                        except TranslatorError:
                            # not a pure arithmetic definition: keep the name as a parameter
                            self.params, self.ptypes, self.arange = snap
                    finally:
                        self._inlining.pop()
            return self.param(n.id, n.id)
        if isinstance(n, (ast.Subscript, ast.Attribute)):
            if isinstance(n, ast.Attribute) and self.is_np(n.value):
                if n.attr == "pi":
                    return self.param("np.pi", "np_pi")
                self.bad(n, "numpy attribute not understood (only np.pi)")
            for sub in ast.walk(n):
                if isinstance(sub, (ast.Call, ast.Lambda, ast.IfExp, ast.NamedExpr, ast.Await, ast.Yield,
                                    ast.ListComp, ast.DictComp, ast.SetComp, ast.GeneratorExp)):
                    self.bad(n, "subscript/attribute containing a call is not an opaque atom")
            text = ast.unparse(n)
            return self.param(text, self.atom_name(text))
        if isinstance(n, ast.UnaryOp):
            if isinstance(n.op, ast.USub):
                if isinstance(n.operand, ast.Constant):
                    return self.lit(n.operand, neg=True)
                return f"(-{self.expr(n.operand)})"
            self.bad(n, "unary operator not understood (only unary minus)")
        if isinstance(n, ast.BinOp):
            if type(n.op) in BINOPS:
                return f"({self.expr(n.left)} {BINOPS[type(n.op)]} {self.expr(n.right)})"
            if isinstance(n.op, ast.Div):
                return f"({self.expr(n.left)} / {self.expr(n.right)})"
            if isinstance(n.op, ast.Mod):
                return f"(Num.pyMod {self.expr(n.left)} {self.expr(n.right)})"
            if isinstance(n.op, ast.Pow):
                e = n.right
                base = self.expr(n.left)
                if isinstance(e, ast.Constant) and isinstance(e.value, int) and not isinstance(e.value, bool) \
                        and e.value == 2:
                    return f"({base} * {base})"
                if isinstance(e, ast.UnaryOp) and isinstance(e.op, ast.USub) and isinstance(e.operand, ast.Constant) \
                        and isinstance(e.operand.value, int) and not isinstance(e.operand.value, bool) \
                        and e.operand.value == 1:
                    return f"(Num.one / {base})"
                return f"(Transc.pow {base} {self.expr(e)})"
            self.bad(n, "binary operator not understood (only + - * / **)")
        if isinstance(n, ast.Call):
            f = n.func
            if (isinstance(f, ast.Attribute) and self.is_np(f.value) and f.attr in NP_FUNCS and not n.keywords
                    and len(n.args) == 1):
                return f"({NP_FUNCS[f.attr]} {self.expr(n.args[0])})"
            if isinstance(f, ast.Attribute) and self.is_np(f.value) and f.attr == "arange":
                return self.arange_elem(n)
            if (isinstance(f, ast.Attribute) and self.is_np(f.value) and f.attr in NP_CONST_ARRAYS and not n.keywords
                    and len(n.args) == 1):
                # `np.ones(shape)`, `np.zeros(shape)`, `np.ones_like(x)`, `np.zeros_like(x)` (no dtype/order keyword)
                # in an elementwise formula: the constant 1.0 / 0.0 of ONE element.  The shape argument is not part
                # of the per-node value (a wrong shape fails to broadcast in the real run or changes its arrays, which
                # the correspondence sees); it must itself be call-free.
                for sub in ast.walk(n.args[0]):
                    if isinstance(sub, (ast.Call, ast.Lambda, ast.IfExp, ast.NamedExpr)):
                        self.bad(n, "shape argument of np.ones/np.zeros contains a call")
                return NP_CONST_ARRAYS[f.attr]
            if (isinstance(f, ast.Attribute) and isinstance(f.value, ast.Name) and f.value.id in self.imp.utils_alias
                    and f.value.id not in self.params and f.attr in UTILS_CALLS):
                return self.utils_call(n, f.attr)
            self.bad(n, "call not understood (only np.exp/log/sqrt/tanh with one argument, np.arange, np.ones/zeros[_like](shape))")
        self.bad(n, "expression not understood")


def _sortkey_def(sp, value, st, src, fname):
    """`sorted(xs, key=lambda h: (h["k1"], h.get("k2", d)), reverse=True|False)` -> the relation
    "a may stay before b" of the (stable) sort on the key components: lexicographic >= (reverse) or <=."""
    ok = (isinstance(value, ast.Call) and isinstance(value.func, ast.Name) and value.func.id == "sorted"
          and len(value.args) == 1 and {k.arg for k in value.keywords} <= {"key", "reverse"})
    kw = {k.arg: k.value for k in value.keywords} if ok else {}
    lam = kw.get("key")
    rev = kw.get("reverse", ast.Constant(value=False))
    if not (ok and isinstance(lam, ast.Lambda) and len(lam.args.args) == 1 and isinstance(rev, ast.Constant)
            and isinstance(rev.value, bool)):
        _bad(st, fname, "sort pattern not understood (sorted(xs, key=lambda h: (...), reverse=<bool>))")
    h = lam.args.args[0].arg
    elts = lam.body.elts if isinstance(lam.body, ast.Tuple) else [lam.body]
    comps = []
    for e in elts:
        if (isinstance(e, ast.Subscript) and isinstance(e.value, ast.Name) and e.value.id == h
                and isinstance(e.slice, ast.Constant) and isinstance(e.slice.value, str)):
            comps.append(e.slice.value)
        elif (isinstance(e, ast.Call) and isinstance(e.func, ast.Attribute) and e.func.attr == "get"
              and isinstance(e.func.value, ast.Name) and e.func.value.id == h and 1 <= len(e.args) <= 2
              and isinstance(e.args[0], ast.Constant) and isinstance(e.args[0].value, str) and not e.keywords):
            comps.append(e.args[0].value)
        else:
            _bad(e, fname, "sort key component not understood (h[\"k\"] or h.get(\"k\", default))")
    names = [lean_name(c) for c in comps]
    a = [f"{c}_a" for c in names]
    b = [f"{c}_b" for c in names]
    if not rev.value:
        a, b = b, a      # ascending: a may precede b iff key(a) <= key(b)

    def ge(i):
        if i == len(names) - 1:
            return f"(decide ({b[i]} ≤ {a[i]}))"
        return f"(decide ({b[i]} < {a[i]}) || (Num.eqb {a[i]} {b[i]} && {ge(i + 1)}))"
    params = [f"{c}_a" for c in names] + [f"{c}_b" for c in names]
    text = " ".join(ast.unparse(st).split()).replace("-/", "- /")
    return (f"/-- sort order of `{text}`:\n    entry `a` may stay before entry `b` iff key(a) "
            f"{'>=' if rev.value else '<='} key(b), lexicographically on ({', '.join(comps)}) -/\n"
            f"def {lean_name(sp.name)} ({' '.join(params)} : α) : Bool :=\n  {ge(0)}\n")


def _committed_text(path):
    """the COMMITTED version of a generated file (`git show HEAD:<path>`), so that what is inlined does not depend
    on what a previous run - possibly on another source tree - left on disk; the file on disk only if git is not
    available or the file is not committed yet"""
    import subprocess
    path = Path(path)
    try:
        rel = path.resolve().relative_to(core.VERIF.resolve())
        r = subprocess.run(["git", "show", f"HEAD:{rel.as_posix()}"], cwd=str(core.VERIF), capture_output=True,
                           text=True, timeout=30)
        if r.returncode == 0 and r.stdout:
            return r.stdout
    except Exception:
        pass
    try:
        return path.read_text()
    except OSError:
        return None


def _old_params(path):
    """python names of the parameters of every definition in the committed generated file: the names the GenTie
    theorems apply with named arguments; any OTHER local name of the source may be inlined (LocalDefs)"""
    text = _committed_text(path)
    if text is None:
        return None
    out = {}
    for m in re.finditer(r"parameters: (.*?) -/\ndef (\S+)", text, re.S):
        out[m.group(2)] = set(k.strip("`") for k in re.findall(r"`[^`]*`", m.group(1)))
    return out


class _AllBut:
    """keep-set of a definition that is not committed yet: every name stays a parameter except the listed locals"""

    def __init__(self, names):
        self.names = set(names)

    def __contains__(self, x):
        return x not in self.names


def _keep_for(old, name, inline=()):
    """names NOT to inline for definition `name` (and its `_len` / `_count` / `_elem` companions)"""
    if old is None:
        return _AllBut(inline) if inline else None
    ks = set()
    hit = False
    for nm in (name, name + "_len", name + "_count", name + "_elem"):
        ln = lean_name(nm)
        if ln in old:
            ks |= old[ln]
            hit = True
    if not hit:
        return _AllBut(inline) if inline else None
    return ks


def _enclosing_if(fd, st):
    for n in ast.walk(fd):
        if isinstance(n, ast.If) and any(x is st for x in n.body):
            return n
    return None


def _ifelse_code(sp, st, fd, tr, fname):
    """the statement group `if <window>: [locals …]; x = a  else: x = b` around the targeted assignment `x = a`,
    as the term `if cond then a else b` (locals of the branch inlined)"""
    node = _enclosing_if(fd, st)
    if node is None or node.body[-1] is not st:
        _bad(st, fname, "if/else group: the targeted assignment must be the last statement of an if-branch")
    for x in node.body[:-1]:
        if not (isinstance(x, ast.Assign) and len(x.targets) == 1 and isinstance(x.targets[0], ast.Name)):
            _bad(x, fname, "if/else group: only plain local assignments may precede the targeted one in the branch")
    if not (len(node.orelse) == 1 and isinstance(node.orelse[0], ast.Assign) and len(node.orelse[0].targets) == 1
            and ast.unparse(node.orelse[0].targets[0]) == sp.target):
        _bad(node, fname, f"if/else group: the else-branch must be exactly one assignment to `{sp.target}`")
    cond = tr.bexpr(node.test)
    a = tr.expr(st.value)
    if tr.inline is not None:
        tr.inline = (tr.inline[0], node.orelse[0], tr.inline[2])
    b = tr.expr(node.orelse[0].value)
    text = " ".join(ast.unparse(node).split()).replace("-/", "- /")
    return f"(if {cond} then {a} else {b})", text


def _formula_defs(src, fname, func, specs, imp, tree, seen_names, old=None):
    fd = _find_func(tree, func, fname)
    assigns = _assignments(fd.body, [])
    local = LocalDefs(fd, tree)
    defs = []
    for sp in specs:
        hits = [a for a in assigns if a[0] == sp.target]
        if len(hits) < sp.occ:
            raise TranslatorError(f"{fname}: {func} has {len(hits)} assignment(s) to `{sp.target}`, "
                                  f"the tie needs #{sp.occ} (definition {sp.name})")
        _, value, st, augop = hits[sp.occ - 1]
        if sp.name in seen_names:
            raise TranslatorError(f"duplicate formula name {sp.name}")
        seen_names.add(sp.name)
        if sp.kind == "sortkey":
            defs.append(_sortkey_def(sp, value, st, src, fname))
            continue
        if augop is not None:
            _bad(st, fname, "augmented assignment in a typed formula group: not translated")
        text = " ".join(ast.unparse(st).split()).replace("-/", "- /")

        def emit(name, tr, code, ty, what):
            keys = ", ".join(f"`{k}`" for k in tr.params) or "none"
            inl_txt = ("`\n    with the local definitions inlined: `" + "`, `".join(f"{a} = {b}" for a, b in tr.inlined)) \
                if tr.inlined else ""
            defs.append(f"/-- `{func}`, assignment #{sp.occ} to `{sp.target}`{what}:\n    `{text}{inl_txt}`\n"
                        f"    parameters: {keys} -/\ndef {lean_name(name)}{tr.binders()} : {ty} :=\n  {code}\n")
        keep = _keep_for(old, sp.name)
        inl = (local, st, keep) if keep is not None else None
        tr = FormulaTr(src, fname, imp, sp.ints, inl)
        # `[e] * k`: a list of k copies of e -> element and count
        if (augop is None and isinstance(value, ast.BinOp) and isinstance(value.op, ast.Mult)
                and isinstance(value.left, ast.List) and len(value.left.elts) == 1):
            emit(sp.name + "_elem", tr, tr.expr(value.left.elts[0]), "α", " (element of the repeated list)")
            tr2 = FormulaTr(src, fname, imp, sp.ints, inl)
            c, t = tr2.texpr(value.right)
            if t not in ("Int", "intlit"):
                _bad(value, fname, "list repetition count must be an int expression")
            emit(sp.name + "_count", tr2, c, "Int", " (number of copies; negative = empty list)")
            continue
        c, t = tr.texpr(value)
        if t == "intlit":
            _bad(value, fname, "a bare int literal: say whether it is an int or a float")
        emit(sp.name, tr, c, {"α": "α", "Int": "Int", "Bool": "Bool"}[t],
             " (one element; `arange_i` is the index)" if tr.arange else
             (" (the condition of ONE element)" if t == "Bool" else ""))
        if tr.arange is not None:
            lc, ltr = tr.arange
            emit(sp.name + "_len", ltr, lc, "Int", " (length of the np.arange; negative = empty)")
    return defs


def translate_formula_groups(groups, namespace: str, title: str, old_file=None) -> str:
    """several (source text, file name, function, specs) groups into ONE generated file; also the
    Int- and Bool-valued node kinds (`int(np.ceil(·))`, `%`, comparisons, `np.arange`, `[e]*k`, sort keys)"""
    defs, seen = [], set()
    for (src, fname, func, specs) in groups:
        tree = ast.parse(src)
        defs += [f"/-! ### `{fname}`: `{func}` -/\n"] + _formula_defs(src, fname, func, specs, Imports(tree), tree, seen,
                                                                      _old_params(old_file) if old_file else None)
    head = (
        f"/-\n  GENERATED by harness/translate.py (formula extraction) - {title} - DO NOT EDIT.\n"
        "  Regenerated on every run of the property checks that own the hand-written model;\n"
        "  SnowProofs/Props/GenTie/*.lean proves each definition below equal to the corresponding\n"
        "  formula of the hand model, so an edited formula in the source breaks a proof.\n"
        "  Names are parameters (`Int` for Python ints); subscripts/attributes are opaque parameters.\n-/\n"
        "import SnowModel.Num\nimport SnowModel.GenSupport\n\n"
        f"namespace {namespace}\nvariable {{α : Type}} [Transc α]\n\n")
    return head + "\n".join(defs) + f"\nend {namespace}\n"


def translate_formulas(src: str, fname: str, func: str, specs, namespace: str, out_name: str, old_file=None) -> str:
    tree = ast.parse(src)
    imp = Imports(tree)
    fd = _find_func(tree, func, fname)
    assigns = _assignments(fd.body, [])
    local = LocalDefs(fd, tree)
    old = _old_params(old_file) if old_file else None
    defs = []
    any_pi = False
    uses_utils = False
    seen_names = set()
    for sp in specs:
        hits = [a for a in assigns if a[0] == sp.target]
        if len(hits) < sp.occ:
            raise TranslatorError(f"{fname}: {func} has {len(hits)} assignment(s) to `{sp.target}`, "
                                  f"the tie needs #{sp.occ} (definition {sp.name})")
        _, value, st, augop = hits[sp.occ - 1]
        keep = _keep_for(old, sp.name, sp.inline)
        tr = FormulaTr(src, fname, imp, (), (local, st, keep) if keep is not None else None)
        group_text = None
        rtype = "α"
        if sp.kind == "ifelse":
            code, group_text = _ifelse_code(sp, st, fd, tr, fname)
        elif augop is not None:
            # x op= e  is  x = x op (e)
            if type(augop) in BINOPS:
                sym = BINOPS[type(augop)]
            elif isinstance(augop, ast.Div):
                sym = "/"
            else:
                _bad(st, fname, "augmented assignment operator not understood")
            lhs = tr.expr(ast.parse(sp.target, mode="eval").body)
            code = f"({lhs} {sym} {tr.expr(value)})"
        elif sp.kind == "mask":
            # a boolean mask: a comparison, or `~m` of a local mask `m` defined as a comparison (ONE element)
            code, rtype = tr.texpr(value)
            if rtype != "Bool":
                _bad(value, fname, "kind `mask`: the assigned value is not a comparison / negated comparison")
        else:
            code = tr.expr(value)
        any_pi = any_pi or tr.needs_pi
        uses_utils = uses_utils or tr.uses_utils
        if sp.name in seen_names:
            raise TranslatorError(f"duplicate formula name {sp.name}")
        seen_names.add(sp.name)
        ps = list(tr.params.values())
        binder = f" ({' '.join(ps)} : α)" if ps else ""
        text = group_text or " ".join(ast.unparse(st).split()).replace("-/", "- /")
        keys = ", ".join(f"`{k}`" for k in tr.params) or "none"
        if tr.inlined:
            text += "`\n    with the local definitions inlined: `" + "`, `".join(f"{a} = {b}" for a, b in tr.inlined)
        defs.append(
            f"/-- `{func}`, assignment #{sp.occ} to `{sp.target}`:\n    `{text}`\n    parameters: {keys} -/\n"
            f"def {lean_name(sp.name)}{binder} : {rtype} :=\n  {code}\n")
    head = (
        f"/-\n  GENERATED by harness/translate.py (formula extraction) from src/ethz_snow/{fname}, `{func}` - DO NOT EDIT.\n"
        "  Regenerated on every run of the property checks that own the hand-written model of this\n"
        "  function; SnowProofs/Props/GenTie/*.lean proves each definition below equal to the\n"
        "  corresponding formula of the hand model, so an edited formula in the source breaks a proof.\n"
        "  Names are parameters; subscripts/attributes are opaque scalar parameters (per node / per vial).\n-/\n"
        "import SnowModel.Num\nimport SnowModel.GenSupport\n" + ("import SnowModel.Gen.GenUtils\n" if uses_utils else "")
        + f"\nnamespace {namespace}\nvariable {{α : Type}} [Transc α]" + (" [HasPi α]" if any_pi else "") + "\n\n")
    return head + "\n".join(defs) + f"\nend {namespace}\n"


# ---------------------------------------------------------------------------
def _write(path: Path, text: str) -> bool:
    """atomic (temp file + os.replace) and only when the content changes (an unchanged file keeps its mtime, so
    nothing is rebuilt and a concurrent reader never sees a half-written file)"""
    import os
    import tempfile
    path.parent.mkdir(parents=True, exist_ok=True)
    if path.exists() and path.read_text() == text:
        return False
    fd, tmp = tempfile.mkstemp(dir=str(path.parent), prefix="." + path.name + ".", suffix=".tmp")
    try:
        with os.fdopen(fd, "w") as f:
            f.write(text)
        os.replace(tmp, path)
    except BaseException:
        try:
            os.unlink(tmp)
        except OSError:
            pass
        raise
    return True


def source(name: str) -> str:
    p = core.REPO / "src" / "ethz_snow" / name
    try:
        return p.read_text()
    except OSError as e:
        raise TranslatorError(f"cannot read {p}: {e}")


def _parse_guard(f, *a):
    try:
        return f(*a)
    except SyntaxError as e:
        raise TranslatorError(f"source does not parse: {e}")
    except RecursionError as e:  # pragma: no cover
        raise TranslatorError(f"source too deeply nested: {e}")


def regenerate_evap() -> bool:
    return _write(GEN_DIR / "Evap.lean", _parse_guard(translate_evap, source("utils.py")))


def _cfg_term(o, ind):
    """a parsed YAML value as a `Cfg α` term; numbers as exact decimals of their text/repr"""
    pad = "  " * ind
    if isinstance(o, dict):
        if not o:
            return ".node []"
        items = []
        for k, v in o.items():
            if not isinstance(k, str):
                raise TranslatorError(f"default config: non-string key {k!r}")
            items.append(f"{pad}  ({lean_str(k)}, {_cfg_term(v, ind + 1)})")
        return ".node [\n" + ",\n".join(items) + "]"
    if o is None:
        return ".leaf .null"

    def dec(text):
        q = Fraction(text)
        k = 0
        while q.denominator != 1:
            q *= 10
            k += 1
            if k > 400:
                raise TranslatorError(f"default config: number {text!r} is not a finite decimal")
        m = q.numerator
        return f"(Num.lit {m} {k})" if m >= 0 else f"(Num.lit ({m}) {k})"
    if isinstance(o, bool):
        return f".leaf (.num {dec('1' if o else '0')})"
    if isinstance(o, int):
        return f".leaf (.num {dec(str(o))})"
    if isinstance(o, float):
        if o != o or o in (float("inf"), float("-inf")):
            raise TranslatorError("default config: non-finite number")
        return f".leaf (.num {dec(repr(o))})"
    if isinstance(o, str):
        try:
            float(o)
            return f".leaf (.nstr {dec(o.strip().replace('_', ''))} {lean_str(o)})"
        except (ValueError, ZeroDivisionError):
            return f".leaf (.str {lean_str(o)})"
    raise TranslatorError(f"default config: value of type {type(o).__name__} is not translated")


def translate_default_cfg(text: str) -> str:
    import yaml
    try:
        o = yaml.load(text, Loader=yaml.FullLoader)
    except Exception as e:
        raise TranslatorError(f"default config does not parse: {e}")
    if not isinstance(o, dict):
        raise TranslatorError("default config is not a mapping")
    return (
        "/-\n  GENERATED by harness/translate.py from src/ethz_snow/config/snowConfig_default.yaml - DO NOT EDIT.\n"
        "  The shipped default configuration as a `Cfg α` tree (numbers as the exact decimals of the file;\n"
        "  a string that `float()` accepts, e.g. `2500.9e3`, keeps its text).  Regenerated on every run of C19;\n"
        "  SnowProofs/Props/C19.lean proves on it that the generated read paths use default keys only, that it is\n"
        "  well-typed and that `calculateDerived` returns constants for it (inhabitation of the hypotheses).\n-/\n"
        "import SnowModel.Num\nimport SnowModel.Config\n\nnamespace Snow.Gen\nvariable {α : Type} [Num α]\n\n"
        "/-- `yaml.load(snowConfig_default.yaml)` -/\ndef defaultCfg : Cfg α :=\n  " + _cfg_term(o, 1) + "\n\nend Snow.Gen\n")


def regenerate_default_cfg() -> bool:
    p = core.REPO / "src" / "ethz_snow" / "config" / "snowConfig_default.yaml"
    try:
        text = p.read_text()
    except OSError as e:
        raise TranslatorError(f"cannot read {p}: {e}")
    return _write(GEN_DIR / "DefaultCfg.lean", translate_default_cfg(text))


def regenerate_derived() -> bool:
    return _write(GEN_DIR / "Derived.lean", _parse_guard(translate_derived, source("constants.py")))


if __name__ == "__main__":
    for nm, f in (("Evap.lean", regenerate_evap), ("Derived.lean", regenerate_derived),
                  ("DefaultCfg.lean", regenerate_default_cfg)):
        try:
            print(nm, "rewritten" if f() else "unchanged")
        except TranslatorError as e:
            print(nm, "TRANSLATOR ERROR:", e)
            sys.exit(1)
