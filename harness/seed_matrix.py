"""Print the markdown table 'which checks catch which seeded changes' from seeded/*/meta.json."""
import json
from pathlib import Path

VERIF = Path(__file__).resolve().parent.parent
rows = []
for d in sorted((VERIF / "seeded").iterdir()):
    m = d / "meta.json"
    if not m.exists():
        continue
    meta = json.loads(m.read_text())
    if meta.get("obsolete"):
        rows.append((d.name, meta.get("property"), meta.get("summary", "")[:160].replace("|", "/"),
                     meta.get("needs", "")[:140].replace("|", "/"), "obsolete: " + meta["obsolete"]["reason"], "-"))
        continue
    conf = meta.get("confirmation", {})
    checks = conf.get("checks", {})
    caught = []
    for cid, r in checks.items():
        if r["rc"] == 1 and r["violation_lines"] > 0:
            caught.append(cid + (" (no-failing-input-found)" if r.get("no_failing_input") else ""))
    missed = [cid for cid, r in checks.items() if r["rc"] == 0]
    rows.append((d.name, meta.get("property"), meta.get("summary", "")[:160].replace("|", "/"),
                 meta.get("needs", "")[:140].replace("|", "/"), ", ".join(caught) or "-", ", ".join(missed) or "-"))
print("| seed | property | change | needs | caught by (quick) | missed by |")
print("|---|---|---|---|---|---|")
for r in rows:
    print("| " + " | ".join(str(x) for x in r) + " |")
