"""Shared machinery of the SNOW verification harness.

* float <-> bit pattern, exact rationals
* persistent model driver (compiled Lean `snowdrv`, JSON line protocol)
* deep comparison of observations (discrete exact, continuous with tolerance)
* Lean build + axiom audit
* violation protocol (known findings, replay files) and evidence writer

Run with /venv/bin/python (the interpreter that has ethz_snow = /repo/src
installed editable, so the working tree of /repo is what executes).
"""
from __future__ import annotations

import hashlib
import json
import math
import os
import re
import struct
import subprocess
import sys
import time
from fractions import Fraction
from pathlib import Path

VERIF = Path(__file__).resolve().parent.parent
LEAN_DIR = VERIF / "lean"
REPO = Path(os.environ.get("SNOW_REPO", "/repo"))
EVIDENCE_DIR = VERIF / "evidence"
REPLAY_DIR = VERIF / "replays"
KNOWN_FINDINGS = VERIF / "known_findings.json"

ALLOWED_AXIOMS = {"propext", "Classical.choice", "Quot.sound"}
FORBIDDEN = re.compile(
    r"\bsorry\b|\badmit\b|^\s*axiom\s|native_decide|bv_decide|implemented_by|\bunsafe\s|maxHeartbeats\s+0\b"
    r"|@\[\s*extern|skipKernelTC|\bofReduceBool\b|\bunsafeCast\b",
    re.M,
)

RTOL = 1e-9


# --------------------------------------------------------------------------
# numbers
# --------------------------------------------------------------------------
def f2b(x) -> int:
    return struct.unpack("<Q", struct.pack("<d", float(x)))[0]


def b2f(b: int) -> float:
    return struct.unpack("<d", struct.pack("<Q", int(b)))[0]


def f2q(x):
    fr = Fraction(float(x))
    return [fr.numerator, fr.denominator]


def q2frac(p) -> Fraction:
    return Fraction(int(p[0]), int(p[1]))


def close(a: float, b: float, rtol: float = RTOL) -> bool:
    if a is None or b is None:
        return a is None and b is None
    a = float(a)
    b = float(b)
    if math.isnan(a) or math.isnan(b):
        return math.isnan(a) and math.isnan(b)
    if math.isinf(a) or math.isinf(b):
        return a == b
    return abs(a - b) <= rtol * max(1.0, abs(a), abs(b))


def exc_class(e: BaseException) -> str:
    """Map an exception to the small enum compared between model and code."""
    for cls in (
        "NotImplementedError",
        "ValueError",
        "TypeError",
        "IndexError",
        "KeyError",
        "AssertionError",
        "ZeroDivisionError",
        "UnboundLocalError",
    ):
        if type(e).__name__ == cls:
            return cls
    return "Other:" + type(e).__name__


# --------------------------------------------------------------------------
# model driver
# --------------------------------------------------------------------------
class Driver:
    """Persistent `snowdrv` process; falls back to `lake env lean --run`."""

    def __init__(self):
        exe = LEAN_DIR / ".lake" / "build" / "bin" / "snowdrv"
        if exe.exists():
            cmd = [str(exe)]
        else:
            cmd = ["lake", "env", "lean", "--run", "Driver.lean"]
        self.p = subprocess.Popen(
            cmd,
            cwd=str(LEAN_DIR),
            stdin=subprocess.PIPE,
            stdout=subprocess.PIPE,
            text=True,
            bufsize=1,
        )

    TIMEOUT_S = 1800

    def call(self, req: dict) -> dict:
        import select

        self.p.stdin.write(json.dumps(req, separators=(",", ":")) + "\n")
        self.p.stdin.flush()
        # one request -> exactly one response line; wait for it with a time limit so that a hung
        # driver cannot hang the check
        r, _, _ = select.select([self.p.stdout], [], [], self.TIMEOUT_S)
        if not r:
            self.p.kill()
            raise RuntimeError("model driver timed out on request %r" % (req.get("op"),))
        line = self.p.stdout.readline()
        if not line:
            raise RuntimeError("model driver died on request %r" % (req.get("op"),))
        return json.loads(line)

    def close(self):
        try:
            self.p.stdin.close()
            self.p.wait(timeout=5)
        except Exception:
            self.p.kill()


# --------------------------------------------------------------------------
# Lean build and audit
# --------------------------------------------------------------------------
def _clean_env():
    env = dict(os.environ)
    return env


def run_cmd(cmd, cwd=None, timeout=3600):
    r = subprocess.run(
        cmd, cwd=cwd, capture_output=True, text=True, timeout=timeout, env=_clean_env()
    )
    out = (r.stdout or "") + (r.stderr or "")
    out = "\n".join(l for l in out.splitlines() if "conda.cli.condarc" not in l)
    return r.returncode, out


class lean_lock:
    """Exclusive lock on the Lean project for the phases that write into it (regenerated model text,
    `lake build`): two checks started at the same time in this directory serialise these phases
    instead of reading each other's half-written files."""

    def __enter__(self):
        import fcntl

        d = LEAN_DIR / ".lake"
        d.mkdir(parents=True, exist_ok=True)
        self.f = open(d / "check.lock", "w")
        fcntl.flock(self.f, fcntl.LOCK_EX)
        return self

    def __exit__(self, *a):
        import fcntl

        try:
            fcntl.flock(self.f, fcntl.LOCK_UN)
        finally:
            self.f.close()
        return False


def lake_build(targets):
    """Build targets; returns (ok, log)."""
    rc, out = run_cmd(["lake", "build"] + list(targets), cwd=str(LEAN_DIR), timeout=3600)
    return rc == 0, out


def strip_comments(src: str) -> str:
    # remove block comments (nested not handled beyond one level – good enough
    # because the files do not nest them) and line comments
    src = re.sub(r"/-.*?-/", "", src, flags=re.S)
    src = re.sub(r"--.*", "", src)
    return src


def grep_forbidden(paths):
    hits = []
    for p in paths:
        try:
            s = strip_comments(Path(p).read_text())
        except FileNotFoundError:
            hits.append(f"{p}: missing")
            continue
        for m in FORBIDDEN.finditer(s):
            hits.append(f"{p}: {m.group(0).strip()}")
    return hits


def lean_sources():
    out = []
    for sub in ("SnowModel", "SnowProofs"):
        out += sorted((LEAN_DIR / sub).rglob("*.lean"))
    out += [LEAN_DIR / "Driver.lean", LEAN_DIR / "SnowModel.lean", LEAN_DIR / "SnowProofs.lean",
            LEAN_DIR / "lakefile.toml"]
    return [p for p in out if p.exists() or p.name == "Driver.lean"]


def audit_theorems(module, theorems, tag: str):
    """`#print axioms` for every theorem. Returns dict name -> (ok, axioms|error).
    `module`: one module name or a list of module names to import."""
    audit_dir = LEAN_DIR / ".lake" / "audit"
    audit_dir.mkdir(parents=True, exist_ok=True)
    f = audit_dir / f"Audit_{tag}.lean"
    modules = [module] if isinstance(module, str) else list(module)
    lines = [f"import {m}" for m in modules] + [f"#print axioms {t}" for t in theorems]
    f.write_text("\n".join(lines) + "\n")
    rc, out = run_cmd(["lake", "env", "lean", str(f)], cwd=str(LEAN_DIR), timeout=1800)
    res = {}
    # outputs: "'X' depends on axioms: [a, b]" (possibly wrapped) or
    #          "'X' does not depend on any axioms"
    flat = re.sub(r"\s+", " ", out)
    for t in theorems:
        m = re.search(r"'" + re.escape(t) + r"' depends on axioms: \[([^\]]*)\]", flat)
        if m:
            ax = {a.strip() for a in m.group(1).split(",") if a.strip()}
            res[t] = (ax <= ALLOWED_AXIOMS, sorted(ax))
            continue
        if re.search(r"'" + re.escape(t) + r"' does not depend on any axioms", flat):
            res[t] = (True, [])
            continue
        res[t] = (False, ["<not found or error>"])
    return res, out


# --------------------------------------------------------------------------
# known findings
# --------------------------------------------------------------------------
def load_known():
    if KNOWN_FINDINGS.exists():
        return json.loads(KNOWN_FINDINGS.read_text())
    return {"open": [], "fixed": []}


def match_known(prop_id: str, key: str, known=None):
    """A failure is known iff an `open` entry of this property has a `match`
    regular expression that fully matches the failure's identity key."""
    known = known or load_known()
    for e in known.get("open", []):
        if e.get("property") == prop_id and re.fullmatch(e["match"], key):
            return e
    return None


# --------------------------------------------------------------------------
# source fingerprint
# --------------------------------------------------------------------------
def repo_fingerprint() -> str:
    h = hashlib.sha256()
    src = REPO / "src" / "ethz_snow"
    for p in sorted(list(src.glob("*.py")) + list((src / "config").glob("*.yaml"))):
        h.update(p.name.encode())
        h.update(p.read_bytes())
    return h.hexdigest()[:16]


# --------------------------------------------------------------------------
# result of one check run
# --------------------------------------------------------------------------
class Failure(dict):
    """A property clause evaluated false on the real implementation.

    clause  – name of the clause of the property
    key     – identity used for known-finding matching: `<clause>|<site>|<input class>`
    detail  – human readable
    case    – the input that fails (JSON-able)
    """


def write_replay(prop_id: str, payload: dict) -> Path:
    d = REPLAY_DIR / prop_id
    d.mkdir(parents=True, exist_ok=True)
    blob = json.dumps(payload, indent=1, sort_keys=True, default=str)
    name = hashlib.sha256(blob.encode()).hexdigest()[:12] + ".json"
    p = d / name
    p.write_text(blob)
    return p


def write_evidence(prop_id: str, ev: dict):
    EVIDENCE_DIR.mkdir(parents=True, exist_ok=True)
    (EVIDENCE_DIR / f"{prop_id}.json").write_text(
        json.dumps(ev, indent=1, default=str) + "\n"
    )


def env_seed() -> int:
    try:
        return int(os.environ.get("VERIF_SEED", "0"))
    except ValueError:
        return 0


# --------------------------------------------------------------------------
# bounded run cache: real-run observations cached under .cache/ are keyed by the source
# state; whenever the source fingerprint changes (another commit, a seeded tree through
# SNOW_REPO) the cached observations of the previous state are deleted, so the cache never
# holds more than one source state (disk space is limited; ~200 MB per state).
# --------------------------------------------------------------------------
def prune_cache():
    d = VERIF / ".cache"
    try:
        d.mkdir(parents=True, exist_ok=True)
        marker = d / "FINGERPRINT"
        fp = repo_fingerprint()
        old = marker.read_text().strip() if marker.exists() else ""
        if old != fp:
            now = time.time()
            for pat in ("*.json", "*.json.gz", "*.tmp*"):
                for f in list(d.glob(pat)) + list(d.glob("*/" + pat)):
                    try:
                        # temp files younger than two hours may belong to a check that is running now
                        if ".tmp" in f.name and now - f.stat().st_mtime < 7200:
                            continue
                        f.unlink()
                    except OSError:
                        pass
            marker.write_text(fp + "\n")
    except OSError:
        pass
