#!/bin/sh
# run every claimed check of MANIFEST.json at the given tier (default quick), sequentially;
# prints one summary line per property. Usage: harness/runall.sh [quick|thorough]
cd "$(dirname "$0")/.." || exit 2
tier=${1:-quick}
rc_all=0
for id in $(/venv/bin/python -c "import json;print(' '.join(c['property_id'] for c in json.load(open('MANIFEST.json'))['checks']))"); do
  out=$(./check "$id" "$tier" 2>&1); rc=$?
  echo "$out" | grep -E "^(VIOLATION|KNOWN-FINDING)" 
  echo "$out" | tail -1 | sed "s/^/[rc=$rc] /"
  [ $rc -ne 0 ] && rc_all=1
done
exit $rc_all
