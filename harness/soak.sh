#!/bin/sh
# harness/soak.sh <Cxx|all> [nseeds=5] [tier=quick] — run a check with several VERIF_SEED values on the
# unchanged tree; any non-zero exit is printed. Used to look for false alarms.
cd "$(dirname "$0")/.." || exit 2
ids=$1; n=${2:-5}; tier=${3:-quick}
[ "$ids" = all ] && ids=$(/venv/bin/python -c "import json;print(' '.join(c['property_id'] for c in json.load(open('MANIFEST.json'))['checks']))")
bad=0
for id in $ids; do
  for s in $(seq 1 "$n"); do
    out=$(VERIF_SEED=$s ./check "$id" "$tier" 2>&1); rc=$?
    if [ $rc -ne 0 ]; then bad=1; echo "== $id seed $s rc=$rc"; echo "$out" | grep -E "VIOLATION|BROKEN|Error|error" | head -5; fi
    echo "$out" | tail -1 | sed "s/^/[$id seed=$s rc=$rc] /"
  done
done
exit $bad
