"""Environment shims applied in the harness process only (never in /repo).

* `scipy.integrate.simps` was removed from SciPy; `ethz_snow.snowing` imports it.
  The shim maps it to `scipy.integrate.simpson` (whose `x` is keyword-only).
* matplotlib backend forced to Agg.
"""
import os
import sys
import warnings

# SNOW_REPO=/path/to/scratch/worktree points the harness at another source tree
# (used to try candidate fixes and seeded mutants without touching /repo).
_repo = os.environ.get("SNOW_REPO")
if _repo:
    sys.path.insert(0, os.path.join(_repo, "src"))

os.environ.setdefault("MPLBACKEND", "Agg")
os.environ.setdefault("SPL_ETHZ_SNOW_VERIF", "1")

import scipy.integrate as _si  # noqa: E402

if not hasattr(_si, "simps"):
    def _simps(y, x=None, dx=1.0, axis=-1):
        return _si.simpson(y, x=x, dx=dx, axis=axis)

    _si.simps = _simps

warnings.filterwarnings("ignore", category=UserWarning)
warnings.filterwarnings("ignore", category=DeprecationWarning)
warnings.filterwarnings("ignore", category=RuntimeWarning)
