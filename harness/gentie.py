"""Regeneration tie for the hand-written run-loop models.

For each of `Snowing._run_0D`, `Snowflake.run`, `Snowing._run_1D` a list of target
assignments is translated (harness/translate.py, formula extraction) into
lean/SnowModel/Gen/Formulas0D.lean, GenFlake.lean, Formulas1D.lean; the theorems of
lean/SnowProofs/Props/GenTie/{Snowing0D,Flake,Snowing1D}.lean prove every generated
definition equal to the corresponding formula of the hand model (Snowing0D.lean, Flake.lean,
Snowing1D.lean).  A property module that owns a hand model does

    import gentie
    THEOREMS = [...] + gentie.theorems("0D")
    extra_lean_targets = [gentie.module("0D")]
    def regenerate(): gentie.regenerate("0D")

so that an edited formula in /repo changes the generated text and the equality stops building
(broken obligation), in addition to the differential check.
"""
from __future__ import annotations

import translate
from translate import Formula as F

# (generated definition, target text, occurrence, tie theorem, clause)
SPECS = {
    "0D": dict(
        file="Formulas0D.lean", source="snowing.py", func="Snowing._run_0D", namespace="Snow.Gen.F0D",
        module="SnowProofs.Props.GenTie.Snowing0D", thm_ns="Snow.GenTie.S0D", hand="SnowModel/Snowing0D.lean",
        formulas=[
            ("w_s", "w_s", 1, "w_s", "w_s = mass_solute / mass"),
            ("T_m", "T_m", 1, "T_m", "T_m = const[T_eq] + 273.15"),
            ("T_eq_l", "T_eq_l", 1, "T_eq_l", "T_eq_l = T_m - depression"),
            ("kb", "kb", 1, "kb", "kb = 10 ** (-(a + xi_v c))"),
            ("dt", "dt", 1, "dt", "dt = 0.1"),
            ("T_0", "T_0", 1, "T_0", "T_0 = cooling start + 273.15"),
            ("cool_T_new", "T_new", 2, "cool_T_new", "cooling update of the product temperature"),
            ("J", "J", 1, "J", "nucleation rate kb (T_eq_l - T)^b on the supercooled branch"),
            ("K_v", "K_v", 1, "K_v", "K_v = J V"),
            ("E_t", "E_t", 1, "E_t", "E_t += K_v dt"),
            ("F_nuc", "F_nuc", 1, "F_nuc", "F_nuc = 1 - exp(-E_t) (stop test F_nuc > F_rand)"),
            ("t_nuc", "t_nuc", 1, "t_nuc", "t_nuc = Nt_cool_end dt"),
            ("stats_T_nuc", "self._stats['T_nuc']", 1, "stats_T_nuc", "T_nuc statistic in deg C"),
            ("stats_t_nuc", "self._stats['t_nuc']", 1, "stats_t_nuc", "t_nuc statistic in minutes"),
            ("B", "B", 1, "B", "coefficient B of the nucleation quadratic"),
            ("C", "C", 1, "C", "coefficient C of the nucleation quadratic"),
            ("T_eq", "T_eq", 1, "T_eq", "equilibrium temperature: the -sqrt root"),
            ("m_i_eq", "m_i_eq", 1, "m_i_eq", "ice mass at the equilibrium temperature"),
            ("w_i_nucl", "w_i_nucl", 1, "w_i_nucl", "ice fraction after nucleation"),
            ("cp", "cp", 1, "cp", "heat capacity of the partially frozen product"),
            ("solid_T_new", "T_new", 3, "solid_T_new", "solidification update of the product temperature"),
            ("w_i_new", "w_i_new", 2, "w_i_new", "ice mass fraction from the freezing-point depression"),
            ("sigma_new", "sigma_new", 1, "sigma_new", "frozen-water fraction sigma"),
            ("stats_t_sol", "self._stats['t_sol']", 2, "stats_t_sol", "t_sol = dt i / 60"),
            ("stats_t_fr", "self._stats['t_fr']", 2, "stats_t_fr", "t_fr = (t_nuc + dt i)/60"),
            ("time_cooling", "time_cooling[i]", 1, "time_cooling", "cooling time axis dt i"),
            ("time_solid", "time_solid[i]", 1, "time_solid", "solidification time axis t_nuc + dt i"),
            ("w_i_solid", "w_i_solid", 2, "w_i_solid", "ice fraction history from the stored temperatures"),
        ]),
    "Flake": dict(
        file="GenFlake.lean", source="snowflake.py", func="Snowflake.run", namespace="Snow.Gen.Flake",
        module="SnowProofs.Props.GenTie.Flake", thm_ns="Snow.GenTie.Flake", hand="SnowModel/Flake.lean",
        formulas=[
            ("kb", "kb", 1, "kb", "kb = 10 ** (-(a + xi_v c)) per vial"),
            ("cp_sigma", "cp_sigma", 1, "cp_sigma", "heat capacity of a solidifying vial"),
            ("beta", "beta", 1, "beta", "beta = depression mass cp_sigma"),
            ("deltaSigma", "deltaSigma", 1, "deltaSigma", "increment of sigma in a solidifying vial"),
            ("sigma_solid", "sigma_k[solidMask]", 1, "sigma_solid", "sigma update of a solidifying vial"),
            ("T_solid", "T_k[solidMask]", 1, "T_solid", "T = T_eq - depression/(1 - sigma) while solidifying"),
            ("T_liquid", "T_k[liquidMask]", 1, "T_liquid", "sensible-heat update of a liquid vial"),
            ("P", "P[nucleationCandidatesMask]", 1, "P", "nucleation probability of a candidate vial"),
            ("t_nucleation", "stats['t_nucleation'][nucleatedVialsMask]", 1, "t_nucleation", "t_nucleation = t[k] + dt"),
            ("t_solidification", "stats['t_solidification'][solidifiedMask]", 1, "t_solidification",
             "t_solidification = t[k] - t_nucleation"),
            ("q0", "q0", 1, "q0", "q0 = (T_eq_l - T) cp_solution mass"),
            ("sigma_indirect", "sigma_k[nucleatedVialsMask]", 1, "sigma_indirect", "initial ice, indirect formulation"),
            ("gamma_direct", "gamma_direct", 1, "gamma_direct", "gamma = -alpha/mass/cp_solution"),
            ("B_direct", "B_direct", 1, "B_direct", "B of the direct quadratic"),
            ("C_direct", "C_direct", 1, "C_direct", "C of the direct quadratic"),
            ("sigma_direct", "sigma_k[nucleatedVialsMask]", 2, "sigma_direct", "initial ice, direct formulation: the +sqrt root"),
            ("T_jump", "T_k[nucleatedVialsMask]", 1, "T_jump", "temperature after the nucleation jump"),
        ]),
    "1D": dict(
        file="Formulas1D.lean", source="snowing.py", func="Snowing._run_1D", namespace="Snow.Gen.F1D",
        module="SnowProofs.Props.GenTie.Snowing1D", thm_ns="Snow.GenTie.S1D", hand="SnowModel/Snowing1D.lean",
        formulas=[
            ("lambda_eff", "lambda_eff", 1, "lambda_eff", "cooling-stage conductivity"),
            ("diffusivity_cooling", "diffusivity_cooling", 1, "diffusivity_cooling", "cooling-stage diffusivity"),
            ("dz", "dz", 1, "dz", "dz = height / Nz"),
            ("alpha_max", "alpha_max", 1, "alpha_max", "alpha_max = lambda_i/(cp_i rho_l)"),
            ("dt", "dt", 1, "dt", "dt = 0.4 dz^2 / alpha_max"),
            ("q_overall", "q_overall", 1, "q_overall", "shelf heat flux"),
            ("T_bottom_BC", "T_bottom_BC", 1, "cool_T_bottom_BC", "ghost value below node 0 (cooling)"),
            ("q_e", "q_e", 1, "q_e", "q_e = -N_w dHe inside the window"),
            ("solid_q_e", "q_e", 4, "solid_q_e", "q_e = -N_w dHe inside the window (solidification)"),
            ("cool_q_e_if", "q_e", 1, "cool_q_e_if", "cooling loop: the whole statement `if window: N_w = vapour_flux(...); q_e = -N_w dHe else: q_e = 0` "
             "with the call arguments and p_vap = vapour_pressure_liquid(T_l)",
             dict(kind="ifelse", inline=["N_w", "p_vap", "T_l", "T_v"])),
            ("solid_q_e_if", "q_e", 4, "solid_q_e_if", "solidification loop: the same statement group with t_nuc + dt i and vapour_pressure_solid",
             dict(kind="ifelse", inline=["N_w", "p_vap", "T_l", "T_v"])),
            ("T_top_BC", "T_top_BC", 1, "cool_T_top_BC", "ghost value above the top node (cooling)"),
            ("T_bottom", "T_bottom", 1, "cool_T_bottom", "cooling stencil, bottom node"),
            ("T_center", "T_center", 1, "cool_T_center", "cooling stencil, interior nodes"),
            ("T_top", "T_top", 1, "cool_T_top", "cooling stencil, top node"),
            ("J_z", "J_z[superCooledMask]", 1, "J_z", "nucleation rate on the supercooled mask"),
            ("E_t", "E_t", 1, "E_t", "E_t += K_v dt"),
            ("F_nuc", "F_nuc", 1, "F_nuc", "F_nuc = 1 - exp(-E_t)"),
            ("t_nuc", "t_nuc", 1, "t_nuc", "t_nuc = dt i"),
            ("B", "B", 1, "B", "coefficient B of the nucleation quadratic (per node)"),
            ("C", "C", 1, "C", "coefficient C of the nucleation quadratic (per node)"),
            ("T_eq_sol_1", "T_eq_sol_1", 1, "T_eq_sol_1", "equilibrium temperature: the -sqrt root"),
            ("m_i_nucl_sol_1", "m_i_nucl_sol_1", 1, "m_i_nucl_sol_1", "ice mass at the equilibrium temperature"),
            ("solid_cp_solution", "cp_solution", 2, "solid_field", "heat capacity of the partially frozen node"),
            ("solid_lambda_eff", "lambda_eff", 2, "solid_field", "conductivity of the partially frozen node"),
            ("solid_beta", "beta", 1, "solid_field", "nonlinear capacitance coefficient"),
            ("solid_T_bottom_BC", "T_bottom_BC", 2, "solid_field", "ghost value below node 0 (solidification)"),
            ("solid_T_top_BC", "T_top_BC", 2, "solid_field", "ghost value above the top node (solidification)"),
            ("solid_T_bottom", "T_bottom", 2, "solid_field", "solidification stencil, bottom node"),
            ("solid_T_center", "T_center", 2, "solid_field", "solidification stencil, interior nodes"),
            ("solid_T_top", "T_top", 2, "solid_field", "solidification stencil, top node"),
            ("w_i_k", "w_i_k", 2, "w_i_k", "ice mass fraction m_ice/mass"),
            ("solid_LCS_i", "LCS_i", 3, "solid_masks", "supercooling mask of the solidification loop: T_k < T_eq_l", dict(kind="mask")),
            ("solid_LCS_i_r", "LCS_i_r", 3, "solid_masks", "its complement ~LCS_i (with the definition of LCS_i)",
             dict(kind="mask", inline=["LCS_i"])),
            ("BETA", "BETA", 1, "solid_field", "apparent-capacitance factor np.ones(Nz)*LCS_i_r + (1 + beta/(T_k - T_m)**2)*LCS_i, masks multiplied in: the field of solidStep1D is computed with the generated BETA at the generated masks of the OLD field (per-node lemma: BETA)"),
            ("m_ice", "m_ice", 1, "w_i_k", "ice mass np.zeros(Nz)*LCS_i_r + (mass_water - mass_solute (k_f/M_s)/(T_m - T_k))*LCS_i: the w of solidStep1D is the generated m_ice / mass (per-node lemma: m_ice). The MASK ARGUMENTS of m_ice - built in the source on the NEW temperature with np.where(T_k < T_eq_l, 1, 0) / np.where(LCS_i, 0, 1) - are NOT extracted (np.where is rejected): the theorem instantiates them with the hand model's maskNum(decide (t < T_eq_l)) and its negation; that part stays tied by the C08/C13 correspondence only"),
        ]),
    "2D": dict(
        file="Formulas2D.lean", source="snowing.py", func="Snowing._run_2D", namespace="Snow.Gen.F2D",
        module="SnowProofs.Props.GenTie.Snowing2D", thm_ns="Snow.GenTie.S2D", hand="SnowModel/Snowing2D.lean",
        formulas=[
            ("radius", "radius", 1, "radius", "radius = diameter/2"),
            ("T_m", "T_m", 1, "T_m", "T_m = const[T_eq] + 273.15"),
            ("T_eq_l", "T_eq_l", 1, "T_eq_l", "T_eq_l = T_m - depression"),
            ("K_wall", "K_wall", 1, "K_wall", "wall heat transfer coefficient of the jacket"),
            ("k_eff", "k_eff", 1, "k_eff", "cooling-stage conductivity"),
            ("alpha", "alpha", 1, "alpha", "cooling-stage diffusivity"),
            ("dz", "dz", 1, "dz", "dz = height/Nz"),
            ("dr", "dr", 1, "dr", "dr = radius/Nr"),
            ("alpha_max", "alpha_max", 1, "alpha_max", "alpha_max = lambda_i/(cp_i rho_l)"),
            ("dt", "dt", 1, "dt", "CFL time step"),
            ("q_overall", "q_overall", 1, "cool_step", "shelf heat flux (cooling)"),
            ("T_bottom", "T_bottom", 1, "cool_step", "ghost row below the bottom (cooling)"),
            ("q_e", "q_e", 1, "q_e", "q_e = -N_w dHe inside the window (cooling)"),
            ("T_top", "T_top", 1, "cool_step", "ghost row above the top (cooling)"),
            ("q_jacket", "q_jacket", 1, "q_jacket", "jacket heat flux"),
            ("T_edge", "T_edge", 1, "cool_step", "ghost column beyond the wall (cooling, spacing dr)"),
            ("cool_bottom_centre", "T_new[0, 0]", 1, "cool_bottom_centre", "cooling stencil, region bottom centre"),
            ("cool_bottom_corner", "T_new[0, Nr - 1]", 1, "cool_bottom_corner", "cooling stencil, region bottom corner"),
            ("cool_bottom_rest", "T_new[0, 1:Nr - 1]", 1, "cool_bottom_rest", "cooling stencil, region bottom rest"),
            ("cool_top_centre", "T_new[Nz - 1, 0]", 1, "cool_top_centre", "cooling stencil, region top centre"),
            ("cool_top_corner", "T_new[Nz - 1, Nr - 1]", 1, "cool_top_corner", "cooling stencil, region top corner"),
            ("cool_top_rest", "T_new[Nz - 1, 1:Nr - 1]", 1, "cool_top_rest", "cooling stencil, region top rest"),
            ("cool_edge", "T_new[1:Nz - 1, Nr - 1]", 1, "cool_edge", "cooling stencil, region edge"),
            ("cool_centre_line", "T_new[1:Nz - 1, 0]", 1, "cool_centre_line", "cooling stencil, region centre line"),
            ("cool_bulk", "T_new[1:Nz - 1, 1:Nr - 1]", 1, "cool_bulk", "cooling stencil, region bulk"),
            ("J_z_r", "J_z_r[superCooledMask]", 1, "J_z_r", "nucleation rate on the supercooled mask"),
            ("E_t", "E_t", 1, "cool_loop_step", "E_t += K_v dt"),
            ("F_nuc", "F_nuc", 1, "cool_loop_step", "F_nuc = 1 - exp(-E_t)"),
            ("B", "B", 1, "B", "coefficient B of the nucleation quadratic (per node)"),
            ("C", "C", 1, "C", "coefficient C of the nucleation quadratic (per node)"),
            ("T_eq_sol_1", "T_eq_sol_1", 1, "T_eq_sol_1", "equilibrium temperature: the -sqrt root"),
            ("m_i_nucl_sol_1", "m_i_nucl_sol_1", 1, "m_i_nucl_sol_1", "ice mass at the equilibrium temperature"),
            ("w_i_nucl", "w_i_new", 1, "w_i_nucl", "ice fraction after nucleation"),
            ("cp_eff", "cp_eff", 1, "cp_eff", "heat capacity of the partially frozen node"),
            ("solid_k_eff", "k_eff", 2, "solid_k_eff", "conductivity of the partially frozen node"),
            ("beta", "beta", 1, "beta", "nonlinear capacitance coefficient"),
            ("solid_q_overall", "q_overall", 2, "solid_step", "shelf heat flux (solidification)"),
            ("solid_T_bottom", "T_bottom", 2, "solid_step", "ghost row below the bottom (solidification)"),
            ("solid_q_e", "q_e", 4, "solid_q_e", "q_e = -N_w dHe inside the window (solidification)"),
            ("cool_q_e_if", "q_e", 1, "cool_q_e_if", "2D cooling loop: the whole if-window/else-0 statement with the call arguments and the liquid curve",
             dict(kind="ifelse", inline=["N_w", "p_vap", "T_l", "T_v"])),
            ("solid_q_e_if", "q_e", 4, "solid_q_e_if", "2D solidification loop: the same statement group with t_nuc + dt i and the ice curve",
             dict(kind="ifelse", inline=["N_w", "p_vap", "T_l", "T_v"])),
            ("solid_T_top", "T_top", 2, "solid_step", "ghost row above the top (solidification)"),
            ("solid_q_jacket", "q_jacket", 3, "solid_q_jacket", "jacket heat flux (solidification)"),
            ("solid_T_edge", "T_edge", 2, "solid_step", "ghost column beyond the wall (solidification, spacing dr)"),
            ("solid_bottom_centre", "T_new[0, 0]", 2, "solid_bottom_centre", "solidification stencil, region bottom centre"),
            ("solid_bottom_corner", "T_new[0, Nr - 1]", 2, "solid_bottom_corner", "solidification stencil, region bottom corner"),
            ("solid_bottom_rest", "T_new[0, 1:Nr - 1]", 2, "solid_bottom_rest", "solidification stencil, region bottom rest"),
            ("solid_top_centre", "T_new[Nz - 1, 0]", 2, "solid_top_centre", "solidification stencil, region top centre"),
            ("solid_top_corner", "T_new[Nz - 1, Nr - 1]", 2, "solid_top_corner", "solidification stencil, region top corner"),
            ("solid_top_rest", "T_new[Nz - 1, 1:Nr - 1]", 2, "solid_top_rest", "solidification stencil, region top rest"),
            ("solid_edge", "T_new[1:Nz - 1, Nr - 1]", 2, "solid_edge", "solidification stencil, region edge"),
            ("solid_centre_line", "T_new[1:Nz - 1, 0]", 2, "solid_centre_line", "solidification stencil, region centre line"),
            ("solid_bulk", "T_new[1:Nz - 1, 1:Nr - 1]", 2, "solid_bulk", "solidification stencil, region bulk"),
            ("w_i_new", "w_i_new", 2, "w_i_new", "ice mass fraction m_ice/(mass_water + mass_solute)"),
            ("solid_LCS_i", "LCS_i", 3, "solid_masks", "supercooling mask left by a solidification step: T_k < T_eq_l", dict(kind="mask")),
            ("solid_LCS_i_r", "LCS_i_r", 3, "solid_masks", "its complement ~LCS_i (with the definition of LCS_i)",
             dict(kind="mask", inline=["LCS_i"])),
            ("BETA", "BETA", 1, "BETA", "apparent-capacitance factor np.ones((Nz, Nr))*LCS_i_r + (1 + beta/(T_k - T_m)**2)*LCS_i, masks multiplied in"),
            ("m_ice", "m_ice", 1, "w_i_new", "ice mass np.zeros((Nz, Nr))*LCS_i_r + (mass_water - mass_solute (k_f/M_s)/(T_m - T_new))*LCS_i at the generated masks of the NEW field (solid_masks): S2D.iceFrac is the generated m_ice / (mass_water + mass_solute) (per-node lemma: m_ice)"),
            ("sigma_new", "sigma_new", 1, "sigma_new", "closed part of sigma_new: normalisation of the volume integral"),
        ]),
    "OpCond": dict(
        file="GenOpCond.lean", namespace="Snow.Gen.OC",
        module="SnowProofs.Props.GenTie.OpCond", thm_ns="Snow.GenTie.OC",
        hand="SnowModel/OpCond.lean (and Flake.timeVec/kCNof)", func="operatingConditions.py / Snowflake.run",
        title="from src/ethz_snow/operatingConditions.py and the time axis of Snowflake.run (snowflake.py)",
        groups=[
            ("operatingConditions.py", "OperatingConditions.holding@setter", [
                dict(name="holding_order", target="value", occ=2, kind="sortkey", thm="holding_order",
                     clause="holds sorted by (temp, duration), descending"),
            ]),
            ("operatingConditions.py", "OperatingConditions.tempProfile", [
                dict(name="n", target="n", thm="n", clause="n = int(ceil(t_tot/dt)) + 1"),
                dict(name="t_hold", target="t_hold", thm="hold_count", clause="t_hold = (T_start - T_hold)/cr"),
                dict(name="T_vec_holding", target="T_vec_holding", thm="hold_count",
                     clause="plateau: int(ceil((duration - t_hold % dt)/dt)) copies of T_hold"),
            ]),
            ("operatingConditions.py", "OperatingConditions._simpleCool", [
                dict(name="t_end", target="t_end", thm="simple_cool", clause="t_end = (Tstart - Tend)/rate"),
                dict(name="t_vec", target="t_vec", thm="simple_cool", clause="np.arange(0, t_end, dt): length ceil(t_end/dt), values i dt"),
                dict(name="T_profile", target="T_profile", thm="simple_cool", clause="T_profile = Tstart - t_vec rate"),
            ]),
            ("operatingConditions.py", "OperatingConditions.cnt", [
                dict(name="cnt_t_vec", target="t_vec", thm="cnt_t_vec", clause="t_vec = np.arange(0, len(T_vec))"),
                dict(name="I_endHold", target="I_endHold", thm="cnt", clause="the test T >= cnTemp of the reversed 1-second profile"),
            ]),
            ("snowflake.py", "Snowflake.run", [
                dict(name="N_timeSteps", target="N_timeSteps", thm="N_timeSteps", clause="N_timeSteps = int(ceil(t_tot/dt)) + 1"),
                dict(name="t", target="t", ints=["N_timeSteps"], thm="time_vec", clause="t = np.arange(N_timeSteps) dt"),
                dict(name="k_CN", target="k_CN", thm="k_CN", clause="the test t >= cnt whose first hit is k_CN"),
                dict(name="k_CN_none", target="k_CN", occ=2, ints=["N_timeSteps"], thm="k_CN", clause="k_CN = N_timeSteps + 1 when no time reaches cnt"),
            ]),
        ]),
    "Utils": dict(
        file="GenUtils.lean", namespace="Snow.Gen.FU",
        module="SnowProofs.Props.GenTie.Evap", thm_ns="Snow.GenTie.Evap",
        hand="SnowModel/EvapFormulas.lean, EvapFormulas2D.lean", func="utils.py",
        title="from src/ethz_snow/utils.py (the three VISF formulas, formula mode: pi is the parameter np_pi)",
        groups=[
            ("utils.py", "vapour_pressure_liquid", [
                dict(name="p_liq", target="p_liq", thm="pLiquid", clause="Murphy-Koop liquid correlation"),
            ]),
            ("utils.py", "vapour_pressure_solid", [
                dict(name="p_sol", target="p_sol", thm="pSolid", clause="Murphy-Koop ice correlation"),
            ]),
            ("utils.py", "vapour_flux", [
                dict(name="N_w", target="N_w", thm="vapourFlux", clause="Hertz-Knudsen flux"),
            ]),
        ]),
}


def module(which: str) -> str:
    return SPECS[which]["module"]


def regenerate(which: str) -> bool:
    """rewrite the generated formula file from the CURRENT source; raises TranslatorError"""
    sp = SPECS[which]
    if "groups" in sp:
        groups = [(translate.source(fn), fn, func,
                   [F(d["name"], d["target"], d.get("occ", 1), d.get("ints", ()), d.get("kind", "expr")) for d in ds])
                  for (fn, func, ds) in sp["groups"]]
        text = translate._parse_guard(translate.translate_formula_groups, groups, sp["namespace"], sp["title"],
                                      translate.GEN_DIR / sp["file"])
        return translate._write(translate.GEN_DIR / sp["file"], text)
    src = translate.source(sp["source"])
    specs = [F(r[0], r[1], r[2], **(r[5] if len(r) > 5 else {})) for r in sp["formulas"]]
    text = translate._parse_guard(translate.translate_formulas, src, sp["source"], sp["func"], specs,
                                  sp["namespace"], sp["file"], translate.GEN_DIR / sp["file"])
    return translate._write(translate.GEN_DIR / sp["file"], text)


def theorems(which: str):
    sp = SPECS[which]
    by_thm = {}
    rows = [r[:5] for r in sp["formulas"]] if "formulas" in sp else [
        (d["name"], d["target"], d.get("occ", 1), d["thm"], d["clause"]) for (_f, _fn, ds) in sp["groups"] for d in ds]
    for (name, _target, _occ, thm, clause) in rows:
        by_thm.setdefault(thm, []).append(f"`{name}` ({clause})")
    return [dict(name=f"{sp['thm_ns']}.{thm}",
                 clause=f"{sp['func']}: generated {'; '.join(parts)} = formula of the hand model {sp['hand']}",
                 strength="tie")
            for thm, parts in by_thm.items()]


if __name__ == "__main__":
    import sys
    for w in SPECS:
        try:
            print(SPECS[w]["file"], "rewritten" if regenerate(w) else "unchanged")
        except translate.TranslatorError as e:
            print(SPECS[w]["file"], "TRANSLATOR ERROR:", e)
            sys.exit(1)
